"""Contract of the per-group part of ThresholdOptimizer._threshold_optimization_for_equalized_odds (C04): the loop that builds interpolation_dict.

Verified text: the loop `for sensitive_feature_value in self._tradeoff_curve.keys():` (second loop of the method).  Before it (assumed here, covered by
the bounded stand-in and by the contracts of _tradeoff_curve / _interpolate_curve): every group's curve is interpolated at the shared grid; x_best =
grid[i_best_EO]; y_best = min over groups of their y at i_best_EO; every hull lies on or above the diagonal (it contains (0,0) and (1,1) and is
concave), hence x_best <= y_best <= y_g.

Postcondition for every group g with ROC point (x_best, y_g) at the shared index i_best_EO:
   0 <= p_ignore <= 1,  prediction_constant = x_best,  (p0,op0,p1,op1) = row i_best_EO of the group's own curve, and the mixture
   p_ignore*(x_best, x_best) + (1-p_ignore)*(x_best, y_g) = (x_best, y_best)   - the same (FPR, TPR) for every group (equalized odds).
"""
import ast

import z3
from z3 import And, BoolVal, ForAll, Function, If, Implies, Int, IntSort, IntVal, K as ConstArray, Real, RealSort, Select, Store

from ..pyvc.core import Abstract, IterSpec, LoopSpec, Obj, PyDict, Unsupported, fresh, is_z3, to_real
from .ndmodel import Nd, NdContract, is_nd
from .to_simple import FIELDS, GV, M, ROW

TO = "fairlearn/postprocessing/_threshold_optimizer.py"
YG = Function("group_tpr_at_best", IntSort(), RealSort())
k_ = Int("k")
ALL = ("p_ignore", "prediction_constant") + FIELDS
GI_ = Int("generic_grid_index")


class EqualizedOddsEntries(NdContract):
    source, function = TO, "ThresholdOptimizer._threshold_optimization_for_equalized_odds"
    prune = False

    def body(self, fn):
        loops = [s for s in fn.body if isinstance(s, ast.For) and "_tradeoff_curve.keys()" in ast.unparse(s.iter)]
        if len(loops) != 1:
            raise Unsupported("the interpolation_dict loop was not found")
        tail = [s for s in fn.body[fn.body.index(loops[0]) + 1:] if isinstance(s, ast.Return)]
        return loops + tail[-1:]        # the loop and the final `return InterpolatedThresholder(...).fit(None, None)`

    def params(self, eng, st):
        self.XB, self.YB, self.IB = Real("x_best"), Real("y_best"), Int("i_best_EO")
        st.assume(M >= 1, 0 <= self.XB, self.XB <= 1, self.XB <= self.YB,
                  ForAll([k_], Implies(And(0 <= k_, k_ < M), And(self.YB <= YG(k_), YG(k_) <= 1)), patterns=[YG(k_)]))
        self.est, self.pm = Abstract("estimator_"), Abstract("predict_method")
        st.env.update({"self": Obj("ThresholdOptimizer", {"_tradeoff_curve": Abstract("curvemap"), "_x_best": self.XB, "_y_best": self.YB, "estimator_": self.est,
                                                          "_predict_method": self.pm}),
                       "i_best_EO": self.IB, "interpolation_dict": Abstract("idict")})
        st.ghost.update({"of": ConstArray(IntSort(), IntVal(-1)), "row": ConstArray(IntSort(), IntVal(-1)), "pi": ConstArray(IntSort(), z3.RealVal(-1)),
                         "pc": ConstArray(IntSort(), z3.RealVal(-1))})

    def on_call(self, eng, st, node, name, recv, args, kwargs):
        if name == "keys" and isinstance(recv, Abstract) and recv.tag == "curvemap":
            return Abstract("curvemap_keys")
        if name == "transpose" and isinstance(recv, Abstract) and recv.tag == "curve":
            return Abstract("curve_T", k=recv.k)
        if name in ("Bunch", "sklearn.utils.Bunch"):
            return Abstract("bunch", fields=dict(kwargs))
        if name == "InterpolatedThresholder":
            return Abstract("IT", args=list(args), kw=dict(kwargs))
        if name == "fit" and isinstance(recv, Abstract) and recv.tag == "IT":
            return recv
        return super().on_call(eng, st, node, name, recv, args, kwargs)

    def on_iter(self, eng, st, node, it):
        if isinstance(it, Abstract) and it.tag == "curvemap_keys":
            return IterSpec(M, lambda kk: Abstract("gkey", k=kk))
        return NotImplemented

    def on_subscript(self, eng, st, node, base, index):
        if isinstance(base, Abstract) and base.tag == "curvemap" and isinstance(index, Abstract) and index.tag == "gkey":
            return Abstract("curve", k=index.k)
        if isinstance(base, Abstract) and base.tag == "curve_T" and is_z3(index):
            return Abstract("roc_row", k=base.k, i=index)
        return super().on_subscript(eng, st, node, base, index)

    def on_attr(self, eng, st, node, base, attr):
        if isinstance(base, Abstract) and base.tag == "roc_row":
            if attr == "x":
                # contract of _interpolate_curve: the x column is the shared grid, so at i_best_EO it is x_best
                return self.XB if base.i is self.IB else fresh("x_other", RealSort())
            if attr == "y":
                return YG(base.k) if base.i is self.IB else fresh("y_other", RealSort())
            if attr in ROW:
                return ROW[attr](base.k, base.i)
        return super().on_attr(eng, st, node, base, attr)

    def on_store_subscript(self, eng, st, node, base, index, value):
        if isinstance(base, Abstract) and base.tag == "idict" and isinstance(index, Abstract) and index.tag == "gkey":
            f = getattr(value, "fields", None)
            ok = isinstance(value, Abstract) and value.tag == "bunch" and set(f) == set(ALL)
            rows = None
            if ok:
                cands = [(f[x].arg(0), f[x].arg(1)) for x in FIELDS if is_z3(f[x]) and f[x].num_args() == 2 and f[x].decl().eq(ROW[x])]
                if len(cands) == 4 and all(c[0].eq(cands[0][0]) and c[1].eq(cands[0][1]) for c in cands):
                    rows = cands[0]
            eng.oblige(st, "entry_has_p_ignore_prediction_constant_and_one_curve_row", BoolVal(rows is not None), "wiring", node)
            if rows is None:
                raise Unsupported("interpolation_dict entry")
            g = st.ghost
            key = GV(index.k)
            g["of"], g["row"] = Store(g["of"], key, rows[0]), Store(g["row"], key, rows[1])
            g["pi"], g["pc"] = Store(g["pi"], key, to_real(f["p_ignore"])), Store(g["pc"], key, to_real(f["prediction_constant"]))
            return True
        return super().on_store_subscript(eng, st, node, base, index, value)

    def havoc_abstract(self, eng, st, name, v):
        return v

    @staticmethod
    def _ghost_havoc(st):
        for nm, sort in (("of", IntSort()), ("row", IntSort()), ("pi", RealSort()), ("pc", RealSort())):
            st.ghost[nm] = fresh("entry_" + nm, z3.ArraySort(IntSort(), sort))

    def entries_ok(self, st, upto):
        g = st.ghost
        pi = lambda kk: Select(g["pi"], GV(kk))
        return ForAll([k_], Implies(And(0 <= k_, k_ < upto),
                                    And(Select(g["of"], GV(k_)) == k_, Select(g["row"], GV(k_)) == self.IB, Select(g["pc"], GV(k_)) == self.XB,
                                        pi(k_) >= 0, pi(k_) <= 1,
                                        pi(k_) * self.XB + (1 - pi(k_)) * YG(k_) == self.YB)), patterns=[GV(k_)])

    def inv(self, st):
        k = st.env["$k1"]
        return [("k_range", And(0 <= k, k <= M)), ("entries_so_far_equalise_both_rates", self.entries_ok(st, k))]

    def loops(self):
        return {1: LoopSpec(self.inv, ghost_havoc=self._ghost_havoc)}       # the second loop of the method

    def params_extra(self):
        pass

    def axioms(self):
        from ..pyvc.verify import Lemma
        k2_ = Int("k2")
        return [Lemma("group_values_are_distinct", ForAll([k_, k2_], Implies(And(0 <= k_, k_ < k2_, k2_ < M), GV(k_) != GV(k2_)), patterns=[z3.MultiPattern(GV(k_), GV(k2_))]))]

    def post(self, eng, st, status, value):
        if status != "return":
            return [("no_exception", BoolVal(False))]
        out = [("every_group_is_placed_on_the_same_FPR_TPR_point", self.entries_ok(st, M))]
        if isinstance(value, Abstract) and value.tag == "IT":
            a = value.args
            out += [("thresholder_gets_the_estimator_and_the_dictionary", BoolVal(len(a) >= 2 and a[0] is self.est and a[1] is st.env["interpolation_dict"] and value.kw.get("prefit") is True)),
                    ("fitted_rule_scores_rows_with_the_predict_method_used_for_the_thresholds", BoolVal(value.kw.get("predict_method") is self.pm))]
        else:
            out.append(("returns_a_fitted_interpolated_thresholder", BoolVal(False)))
        return out


class EqualizedOddsCurves(NdContract):
    """First part of _threshold_optimization_for_equalized_odds: from the start of the method to the end of the loop over the groups (wiring contract).
    Every group's ROC hull is built from ITS rows with the CALLER'S flip setting and the callee's default metrics (false/true positive rate - checked on the
    callee's signature), interpolated at the shared grid linspace(0, 1, grid_size + 1), stored under the group's value, and its y column collected."""
    source, function = TO, "ThresholdOptimizer._threshold_optimization_for_equalized_odds"
    prune = False

    def body(self, fn):
        for idx, s in enumerate(fn.body):
            if isinstance(s, ast.For) and "data_grouped_by_sensitive_feature" in ast.unparse(s.iter):
                return [x for x in fn.body[:idx + 1] if not (isinstance(x, ast.Expr) and isinstance(x.value, ast.Constant))]
        raise Unsupported("the loop over the groups was not found")

    def droppable(self, s):
        return isinstance(s, ast.Expr) and isinstance(s.value, ast.Call) and ast.unparse(s.value.func).startswith("logger.")

    def params(self, eng, st):
        self.sf, self.labels, self.scores, self.flip = Abstract("sf"), Abstract("labels"), Abstract("scores"), Abstract("flip")
        self.gs = Int("grid_size")
        st.assume(M >= 1, self.gs >= 1)
        st.env.update({"self": Obj("ThresholdOptimizer", {"grid_size": self.gs, "flip": self.flip, "_x_grid": Abstract("x_grid_of_an_earlier_fit"),
                                                          "_tradeoff_curve": Abstract("curves_of_an_earlier_fit")}), "sensitive_features": self.sf, "labels": self.labels, "scores": self.scores})

    def on_call(self, eng, st, node, name, recv, args, kwargs):
        if name == "_reformat_and_group_data":
            eng.oblige(st, "groups_of_the_given_rows", BoolVal(len(args) == 3 and args[0] is self.sf and args[1] is self.labels and args[2] is self.scores and not kwargs), "wiring", node)
            return Abstract("grouped")
        if name == "len" and args[0] is self.labels:
            return Int("n_rows")
        if name == "isinstance" and args[0] is self.labels:
            return False
        if name == "sum" and args and args[0] is self.labels:
            return Int("n_positive")
        if name == "numpy.linspace":
            ok = len(args) == 3 and args[0] == 0 and args[1] == 1 and is_z3(args[2]) and z3.simplify(args[2] - (self.gs + 1)).eq(IntVal(0))
            eng.oblige(st, "grid_is_linspace_0_1_with_grid_size_plus_one_points", BoolVal(bool(ok)), "wiring", node)
            return Abstract("x_grid")
        if name == "pandas.DataFrame" and not args and not kwargs:
            return Abstract("y_values")
        if name == "_tradeoff_curve":
            g = args[0] if args else None
            ok = len(args) == 2 and isinstance(g, Abstract) and g.tag == "group" and isinstance(args[1], Abstract) and args[1].tag == "gkey" and args[1].k is g.k \
                and set(kwargs) == {"flip"} and kwargs["flip"] is st.env["self"].fields.get("flip")
            eng.oblige(st, "roc_hull_of_the_group_with_the_callers_flip_setting_and_default_metrics", BoolVal(bool(ok)), "wiring", node)
            return Abstract("hull", k=getattr(g, "k", None))
        if name == "_interpolate_curve":
            ok = len(args) == 5 and isinstance(args[0], Abstract) and args[0].tag == "hull" and args[1:4] == ["x", "y", "operation"] \
                and isinstance(args[4], Abstract) and args[4].tag == "x_grid"
            eng.oblige(st, "curve_is_the_hull_interpolated_at_the_shared_grid", BoolVal(bool(ok)), "wiring", node)
            return Abstract("curve", k=getattr(args[0], "k", None) if args else None)
        if name == "str":
            return "g"
        return super().on_call(eng, st, node, name, recv, args, kwargs)

    def on_iter(self, eng, st, node, it):
        if isinstance(it, Abstract) and it.tag == "grouped":
            return IterSpec(M, lambda kk: (Abstract("gkey", k=kk), Abstract("group", k=kk)))
        return NotImplemented

    def on_subscript(self, eng, st, node, base, index):
        if isinstance(base, PyDict) and isinstance(index, Abstract) and index.tag == "gkey":
            hit = [v for kk, v in base.d.items() if kk is index]
            if hit:
                return hit[0]
        if isinstance(base, Abstract) and base.tag == "curvemap" and isinstance(index, Abstract) and index.tag == "gkey":
            return st.ghost.get("last_curve") if st.ghost.get("last_key") is index else Abstract("curve", k=index.k)
        if isinstance(base, Abstract) and base.tag == "curve" and index == "y":
            return Abstract("curve_y", k=base.k)
        return super().on_subscript(eng, st, node, base, index)

    def on_store_attr(self, eng, st, node, base, attr, value):
        if isinstance(base, Obj) and attr == "_tradeoff_curve" and isinstance(value, PyDict) and not value.d:
            base.fields[attr] = Abstract("curvemap")
            return True
        return NotImplemented

    def on_store_subscript(self, eng, st, node, base, index, value):
        if isinstance(base, Abstract) and base.tag == "curvemap":
            ok = isinstance(index, Abstract) and index.tag == "gkey" and isinstance(value, Abstract) and value.tag == "curve" and value.k is index.k
            eng.oblige(st, "curve_stored_under_its_own_group_value", BoolVal(bool(ok)), "wiring", node)
            st.ghost["last_key"], st.ghost["last_curve"] = index, value
            return True
        if isinstance(base, Abstract) and base.tag == "y_values":
            ok = isinstance(index, Abstract) and index.tag == "gkey" and isinstance(value, Abstract) and value.tag == "curve_y" and value.k is index.k
            eng.oblige(st, "y_column_of_the_groups_own_curve_collected_under_its_value", BoolVal(bool(ok)), "wiring", node)
            return True
        return super().on_store_subscript(eng, st, node, base, index, value)

    def havoc_abstract(self, eng, st, name, v):
        return v

    def loops(self):
        return {0: LoopSpec(lambda st: [])}

    def post(self, eng, st, status, value):
        return [("falls_through_to_the_selection_of_the_shared_grid_point", BoolVal(status == "return" and value is None))]


def tradeoff_curve_defaults():
    """static obligation: the defaults that the equalized-odds call relies on (x = false positive rate, y = true positive rate)"""
    from ..pyvc.core import Source
    src = Source.load("fairlearn/postprocessing/_tradeoff_curve_utilities.py")
    fn = src.func("_tradeoff_curve")
    a = fn.args
    names = [x.arg for x in a.args]
    d = dict(zip(names[len(names) - len(a.defaults):], a.defaults))
    d.update({k.arg: v for k, v in zip(a.kwonlyargs, a.kw_defaults) if v is not None})
    got = {k: (v.value if isinstance(v, ast.Constant) else ast.unparse(v)) for k, v in d.items()}
    return got


class EqualizedOddsSelection(NdContract):
    """Middle part of _threshold_optimization_for_equalized_odds: from `self._y_min = np.amin(y_values, axis=1)` to `self._y_best = ...`.
    y_values[i, k] is the TPR of group k's hull at the shared FPR grid point i (contract of the curve loop).  The real `_extend_confusion_matrix` and the
    real METRIC_DICT entry of the objective are executed symbolically on the point-wise arrays.
    Postcondition (C04/C05, equalized odds): y_min[i] is the pointwise-lowest hull (a lower bound of every group, attained by one: assumed contract of
    np.amin); i_best_EO is the FIRST grid index maximising the overall objective of the classifier with FPR x_i and TPR y_min[i] -
    accuracy (n_neg*(1-x_i) + n_pos*y_min[i]) / n or balanced accuracy ((1-x_i) + y_min[i]) / 2; x_best = grid[i_best], y_best = y_min[i_best]."""
    source, function = TO, "ThresholdOptimizer._threshold_optimization_for_equalized_odds"
    check_pointwise_division = False          # positives = n_positive > 0 and negatives = n_negative > 0 (both classes present: precondition of the method)
    prune = False

    def __init__(self, objective):
        self.objective = objective
        self.variant = f"[{objective}]"

    def body(self, fn):
        start = [i for i, s in enumerate(fn.body) if isinstance(s, ast.Assign) and ast.unparse(s.targets[0]) == "self._y_min"]
        end = [i for i, s in enumerate(fn.body) if isinstance(s, ast.Assign) and ast.unparse(s.targets[0]) == "self._y_best"]
        if len(start) != 1 or len(end) != 1 or end[0] < start[0]:
            raise Unsupported("selection part not found")
        return fn.body[start[0]:end[0] + 1]

    def params(self, eng, st):
        from .to_simple import YC
        self.G, self.npos, self.nneg = Int("grid_points"), Int("n_positive"), Int("n_negative")
        self.XG, self.YMIN, self.WK = Function("x_grid", IntSort(), RealSort()), Function("y_min", IntSort(), RealSort()), Function("lowest_group_at", IntSort(), IntSort())
        i = Int("ii")
        st.assume(self.G >= 2, M >= 1, self.npos >= 1, self.nneg >= 1,
                  ForAll([i], Implies(And(0 <= i, i < self.G), And(0 <= self.XG(i), self.XG(i) <= 1)), patterns=[self.XG(i)]),
                  ForAll([i, k_], Implies(And(0 <= i, i < self.G, 0 <= k_, k_ < M), And(0 <= YC(k_, i), YC(k_, i) <= 1)), patterns=[YC(k_, i)]))
        self.yv = Nd("y_values", (self.G, M), "frame", "DEFAULT", cell=lambda i_, k: YC(k, i_), is_y_values=True)
        grid = Nd("x_grid", (self.G,), "ndarray", "ERASED", cell=lambda i_: self.XG(i_), is_grid=True)
        st.env.update({"self": Obj("ThresholdOptimizer", {"_x_grid": grid, "objective": self.objective, "objective_": self.objective}),
                       "y_values": self.yv, "n_positive": self.npos, "n_negative": self.nneg})

    def on_call(self, eng, st, node, name, recv, args, kwargs):
        from .to_simple import YC
        if name == "numpy.amin" and args and args[0] is self.yv:
            eng.oblige(st, "lowest_hull_taken_over_the_groups", BoolVal(kwargs.get("axis", args[1] if len(args) > 1 else None) == 1), "wiring", node)
            i = Int("ia")
            st.assume(ForAll([i, k_], Implies(And(0 <= i, i < self.G, 0 <= k_, k_ < M), self.YMIN(i) <= YC(k_, i)), patterns=[YC(k_, i)]),
                      ForAll([i], Implies(And(0 <= i, i < self.G), And(0 <= self.WK(i), self.WK(i) < M, self.YMIN(i) == YC(self.WK(i), i))), patterns=[self.YMIN(i)]))
            return Nd("y_min", (self.G,), "series", "DEFAULT", cell=lambda i_: self.YMIN(i_), is_y_min=True)
        if name == "numpy.around" and args and is_nd(args[0]):
            return args[0]          # rounding to 15 decimals: identity on the reals (A1)
        if name == "idxmax" and is_nd(recv) and recv.cell:
            ib, j = fresh("i_best_EO"), Int("jx")
            c = recv.cell
            st.assume(0 <= ib, ib < self.G, ForAll([j], Implies(And(0 <= j, j < self.G), c(j) <= c(ib))), ForAll([j], Implies(And(0 <= j, j < ib), c(j) < c(ib))))
            st.ghost["objective_cell"] = c
            return ib
        return super().on_call(eng, st, node, name, recv, args, kwargs)

    def on_subscript(self, eng, st, node, base, index):
        if is_nd(base) and base.cell and len(base.shape) == 1 and is_z3(index) and not is_nd(index):
            return base.cell(index)
        return super().on_subscript(eng, st, node, base, index)

    def post(self, eng, st, status, value):
        f = st.env["self"].fields
        ib = st.env.get("i_best_EO")
        if status != "return" or not is_z3(ib) or not is_z3(f.get("_x_best")) or not is_z3(f.get("_y_best")):
            return [("selects_a_grid_point_and_stores_x_best_y_best", BoolVal(False))]
        x, y = (lambda i_: self.XG(i_)), (lambda i_: self.YMIN(i_))
        npos, nneg = z3.ToReal(self.npos), z3.ToReal(self.nneg)
        if self.objective == "accuracy_score":
            obj = lambda i_: (nneg * (1 - x(i_)) + npos * y(i_)) / (npos + nneg)
        else:
            obj = lambda i_: ((1 - x(i_)) + y(i_)) / 2
        rng = And(0 <= GI_, GI_ < self.G)
        return [("best_index_in_range", And(0 <= ib, ib < self.G)),
                ("x_best_is_the_grid_value_and_y_best_the_lowest_hull_at_the_best_index", And(to_real(f["_x_best"]) == x(ib), to_real(f["_y_best"]) == y(ib))),
                ("best_index_maximises_the_overall_objective", Implies(rng, obj(GI_) <= obj(ib))),
                ("best_index_is_the_first_maximiser", Implies(And(rng, GI_ < ib), obj(GI_) < obj(ib)))]
