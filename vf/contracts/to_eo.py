"""Contract of the per-group part of ThresholdOptimizer._threshold_optimization_for_equalized_odds (C04): the loop that builds interpolation_dict.

Verified text: the loop `for sensitive_feature_value in self._tradeoff_curve.keys():` (second loop of the method).  Before it (assumed here, covered by
the bounded stand-in and by the contracts of _tradeoff_curve / _interpolate_curve): every group's curve is interpolated at the shared grid; x_best =
grid[i_best_EO]; y_best = min over groups of their y at i_best_EO; every hull lies on or above the diagonal (it contains (0,0) and (1,1) and is
concave), hence x_best <= y_best <= y_g.

Postcondition for every group g with ROC point (x_best, y_g) at the shared index i_best_EO:
   0 <= p_ignore <= 1,  prediction_constant = x_best,  (p0,op0,p1,op1) = row i_best_EO of the group's own curve, and the mixture
   p_ignore*(x_best, x_best) + (1-p_ignore)*(x_best, y_g) = (x_best, y_best)   - the same (FPR, TPR) for every group (equalized odds).
"""
import ast

import z3
from z3 import And, BoolVal, ForAll, Function, If, Implies, Int, IntSort, IntVal, K as ConstArray, Real, RealSort, Select, Store

from ..pyvc.core import Abstract, IterSpec, LoopSpec, Obj, PyDict, Unsupported, fresh, is_z3, to_real
from .ndmodel import NdContract
from .to_simple import FIELDS, GV, M, ROW

TO = "fairlearn/postprocessing/_threshold_optimizer.py"
YG = Function("group_tpr_at_best", IntSort(), RealSort())
k_ = Int("k")
ALL = ("p_ignore", "prediction_constant") + FIELDS


class EqualizedOddsEntries(NdContract):
    source, function = TO, "ThresholdOptimizer._threshold_optimization_for_equalized_odds"
    prune = False

    def body(self, fn):
        loops = [s for s in fn.body if isinstance(s, ast.For) and "_tradeoff_curve.keys()" in ast.unparse(s.iter)]
        if len(loops) != 1:
            raise Unsupported("the interpolation_dict loop was not found")
        tail = [s for s in fn.body[fn.body.index(loops[0]) + 1:] if isinstance(s, ast.Return)]
        return loops + tail[-1:]        # the loop and the final `return InterpolatedThresholder(...).fit(None, None)`

    def params(self, eng, st):
        self.XB, self.YB, self.IB = Real("x_best"), Real("y_best"), Int("i_best_EO")
        st.assume(M >= 1, 0 <= self.XB, self.XB <= 1, self.XB <= self.YB,
                  ForAll([k_], Implies(And(0 <= k_, k_ < M), And(self.YB <= YG(k_), YG(k_) <= 1)), patterns=[YG(k_)]))
        self.est, self.pm = Abstract("estimator_"), Abstract("predict_method")
        st.env.update({"self": Obj("ThresholdOptimizer", {"_tradeoff_curve": Abstract("curvemap"), "_x_best": self.XB, "_y_best": self.YB, "estimator_": self.est,
                                                          "_predict_method": self.pm}),
                       "i_best_EO": self.IB, "interpolation_dict": Abstract("idict")})
        st.ghost.update({"of": ConstArray(IntSort(), IntVal(-1)), "row": ConstArray(IntSort(), IntVal(-1)), "pi": ConstArray(IntSort(), z3.RealVal(-1)),
                         "pc": ConstArray(IntSort(), z3.RealVal(-1))})

    def on_call(self, eng, st, node, name, recv, args, kwargs):
        if name == "keys" and isinstance(recv, Abstract) and recv.tag == "curvemap":
            return Abstract("curvemap_keys")
        if name == "transpose" and isinstance(recv, Abstract) and recv.tag == "curve":
            return Abstract("curve_T", k=recv.k)
        if name in ("Bunch", "sklearn.utils.Bunch"):
            return Abstract("bunch", fields=dict(kwargs))
        if name == "InterpolatedThresholder":
            return Abstract("IT", args=list(args), kw=dict(kwargs))
        if name == "fit" and isinstance(recv, Abstract) and recv.tag == "IT":
            return recv
        return super().on_call(eng, st, node, name, recv, args, kwargs)

    def on_iter(self, eng, st, node, it):
        if isinstance(it, Abstract) and it.tag == "curvemap_keys":
            return IterSpec(M, lambda kk: Abstract("gkey", k=kk))
        return NotImplemented

    def on_subscript(self, eng, st, node, base, index):
        if isinstance(base, Abstract) and base.tag == "curvemap" and isinstance(index, Abstract) and index.tag == "gkey":
            return Abstract("curve", k=index.k)
        if isinstance(base, Abstract) and base.tag == "curve_T" and is_z3(index):
            return Abstract("roc_row", k=base.k, i=index)
        return super().on_subscript(eng, st, node, base, index)

    def on_attr(self, eng, st, node, base, attr):
        if isinstance(base, Abstract) and base.tag == "roc_row":
            if attr == "x":
                # contract of _interpolate_curve: the x column is the shared grid, so at i_best_EO it is x_best
                return self.XB if base.i is self.IB else fresh("x_other", RealSort())
            if attr == "y":
                return YG(base.k) if base.i is self.IB else fresh("y_other", RealSort())
            if attr in ROW:
                return ROW[attr](base.k, base.i)
        return super().on_attr(eng, st, node, base, attr)

    def on_store_subscript(self, eng, st, node, base, index, value):
        if isinstance(base, Abstract) and base.tag == "idict" and isinstance(index, Abstract) and index.tag == "gkey":
            f = getattr(value, "fields", None)
            ok = isinstance(value, Abstract) and value.tag == "bunch" and set(f) == set(ALL)
            rows = None
            if ok:
                cands = [(f[x].arg(0), f[x].arg(1)) for x in FIELDS if is_z3(f[x]) and f[x].num_args() == 2 and f[x].decl().eq(ROW[x])]
                if len(cands) == 4 and all(c[0].eq(cands[0][0]) and c[1].eq(cands[0][1]) for c in cands):
                    rows = cands[0]
            eng.oblige(st, "entry_has_p_ignore_prediction_constant_and_one_curve_row", BoolVal(rows is not None), "wiring", node)
            if rows is None:
                raise Unsupported("interpolation_dict entry")
            g = st.ghost
            key = GV(index.k)
            g["of"], g["row"] = Store(g["of"], key, rows[0]), Store(g["row"], key, rows[1])
            g["pi"], g["pc"] = Store(g["pi"], key, to_real(f["p_ignore"])), Store(g["pc"], key, to_real(f["prediction_constant"]))
            return True
        return super().on_store_subscript(eng, st, node, base, index, value)

    def havoc_abstract(self, eng, st, name, v):
        return v

    @staticmethod
    def _ghost_havoc(st):
        for nm, sort in (("of", IntSort()), ("row", IntSort()), ("pi", RealSort()), ("pc", RealSort())):
            st.ghost[nm] = fresh("entry_" + nm, z3.ArraySort(IntSort(), sort))

    def entries_ok(self, st, upto):
        g = st.ghost
        pi = lambda kk: Select(g["pi"], GV(kk))
        return ForAll([k_], Implies(And(0 <= k_, k_ < upto),
                                    And(Select(g["of"], GV(k_)) == k_, Select(g["row"], GV(k_)) == self.IB, Select(g["pc"], GV(k_)) == self.XB,
                                        pi(k_) >= 0, pi(k_) <= 1,
                                        pi(k_) * self.XB + (1 - pi(k_)) * YG(k_) == self.YB)), patterns=[GV(k_)])

    def inv(self, st):
        k = st.env["$k1"]
        return [("k_range", And(0 <= k, k <= M)), ("entries_so_far_equalise_both_rates", self.entries_ok(st, k))]

    def loops(self):
        return {1: LoopSpec(self.inv, ghost_havoc=self._ghost_havoc)}       # the second loop of the method

    def params_extra(self):
        pass

    def axioms(self):
        from ..pyvc.verify import Lemma
        k2_ = Int("k2")
        return [Lemma("group_values_are_distinct", ForAll([k_, k2_], Implies(And(0 <= k_, k_ < k2_, k2_ < M), GV(k_) != GV(k2_)), patterns=[z3.MultiPattern(GV(k_), GV(k2_))]))]

    def post(self, eng, st, status, value):
        if status != "return":
            return [("no_exception", BoolVal(False))]
        out = [("every_group_is_placed_on_the_same_FPR_TPR_point", self.entries_ok(st, M))]
        if isinstance(value, Abstract) and value.tag == "IT":
            a = value.args
            out += [("thresholder_gets_the_estimator_and_the_dictionary", BoolVal(len(a) >= 2 and a[0] is self.est and a[1] is st.env["interpolation_dict"] and value.kw.get("prefit") is True)),
                    ("fitted_rule_scores_rows_with_the_predict_method_used_for_the_thresholds", BoolVal(value.kw.get("predict_method") is self.pm))]
        else:
            out.append(("returns_a_fitted_interpolated_thresholder", BoolVal(False)))
        return out
