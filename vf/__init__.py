"""Contract-based verification framework for fairlearn (see /verif/DESIGN.md)."""
REPO = "/repo"
