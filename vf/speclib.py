"""First-principles specification functions (plain Python, exact Fractions, no call into fairlearn).

These are the oracles of the run-time contract stand-ins and the native side of counterexample replays."""
import itertools
import math
from fractions import Fraction


def F(x):
    if isinstance(x, Fraction):
        return x
    if isinstance(x, float):
        return Fraction(x)       # exact binary value
    return Fraction(x)


def weights_or_ones(w, n):
    return [Fraction(1)] * n if w is None else [F(x) for x in w]


# ------------------------------------------------------------------ base rates (C14, C11)
def confusion_rates(y_true, y_pred, w=None, pos=1):
    """dict(tpr, fnr, fpr, tnr); a rate whose denominator is empty is 0 (statement of C14)."""
    n = len(y_true)
    w = weights_or_ones(w, n)
    P = sum(w[i] for i in range(n) if y_true[i] == pos)
    N = sum(w[i] for i in range(n) if y_true[i] != pos)
    tp = sum(w[i] for i in range(n) if y_true[i] == pos and y_pred[i] == pos)
    fn = P - tp
    fp = sum(w[i] for i in range(n) if y_true[i] != pos and y_pred[i] == pos)
    tn = N - fp
    z = Fraction(0)
    return {"tpr": tp / P if P else z, "fnr": fn / P if P else z, "fpr": fp / N if N else z, "tnr": tn / N if N else z,
            "has_pos": P != 0, "has_neg": N != 0}


def selection_rate(y_pred, w=None, pos=1):
    n = len(y_pred)
    w = weights_or_ones(w, n)
    return sum(w[i] for i in range(n) if y_pred[i] == pos) / sum(w)


def mean_prediction(y_pred, w=None):
    n = len(y_pred)
    w = weights_or_ones(w, n)
    return sum(w[i] * F(y_pred[i]) for i in range(n)) / sum(w)


def accuracy(y_true, y_pred, w=None):
    n = len(y_true)
    w = weights_or_ones(w, n)
    return sum(w[i] for i in range(n) if y_true[i] == y_pred[i]) / sum(w)


# ------------------------------------------------------------------ grouping (C01)
def groups(*features):
    """rows -> dict key(tuple of feature values) -> list of row indices, for parallel feature vectors"""
    out = {}
    n = len(features[0])
    for i in range(n):
        out.setdefault(tuple(f[i] for f in features), []).append(i)
    return out


def product_index(*features):
    return list(itertools.product(*[sorted(set(f)) for f in features]))


# ------------------------------------------------------------------ aggregates (C02)
def _valid(vals):
    return [v for v in vals if v is not None and not (isinstance(v, float) and math.isnan(v))]


def agg_min(vals):
    v = _valid(vals)
    return min(v) if v else None


def agg_max(vals):
    v = _valid(vals)
    return max(v) if v else None


def difference_between(vals):
    v = _valid(vals)
    return (max(v) - min(v)) if v else None


def difference_to_overall(vals, overall):
    v = _valid(vals)
    return max(abs(x - overall) for x in v) if v else None


def ratio_between(vals):
    """min/max; None when undefined (0/0)"""
    v = _valid(vals)
    if not v:
        return None
    lo, hi = min(v), max(v)
    if hi == 0:
        return None if lo == 0 else ("inf", lo)
    return F(lo) / F(hi)


def ratio_to_overall(vals, overall):
    v = _valid(vals)
    if not v:
        return None
    out = []
    for x in v:
        if overall == 0:
            return None
        r = F(x) / F(overall)
        out.append(min(r, 1 / r) if r > 0 else r)      # min(r, 1/r) for r > 0; r <= 0: r itself (1/r undefined or more negative...)
    return min(out)


def close(a, b, tol=1e-9):
    if a is None or b is None:
        return a is None and b is None
    a, b = float(a), float(b)
    if math.isnan(a) or math.isnan(b):
        return math.isnan(a) and math.isnan(b)
    return abs(a - b) <= tol * max(1.0, abs(a), abs(b))
