"""C02 lemmas `agg.*` over the aggregate contracts (group values v_1..v_k, k <= 4 unrolled; min/max as spec).

difference >= 0; ratio in [0,1] for non-negative values; between_groups <= 2 * to_overall; and for metrics that are sample-weighted means
(overall = sum_g p_g v_g with p_g >= 0, sum p_g = 1) to_overall <= between_groups (the overall lies between min and max: agg.sandwich)."""
import itertools

from z3 import And, If, Implies, Or, Real, RealVal, Sum

from ._lemma import prove_all


def _mn(vs):
    out = vs[0]
    for v in vs[1:]:
        out = If(v < out, v, out)
    return out


def _mx(vs):
    out = vs[0]
    for v in vs[1:]:
        out = If(v > out, v, out)
    return out


def run(rep):
    jobs = []
    o = Real("overall")
    for k in (2, 3, 4):
        vs = [Real(f"v{i}") for i in range(k)]
        ps = [Real(f"p{i}") for i in range(k)]
        mn, mx = _mn(vs), _mx(vs)
        absd = [If(v - o >= 0, v - o, o - v) for v in vs]
        to_overall = _mx(absd)
        jobs += [(f"agg.difference_nonnegative[k={k}]", [], mx - mn >= 0),
                 (f"agg.ratio_in_unit_interval_for_nonnegative_values[k={k}]", [v >= 0 for v in vs] + [mx > 0], And(mn / mx >= 0, mn / mx <= 1)),
                 (f"agg.between_le_twice_to_overall[k={k}]", [], mx - mn <= 2 * to_overall),
                 (f"agg.sandwich_weighted_mean_between_min_and_max[k={k}]", [p >= 0 for p in ps] + [Sum(ps) == 1, o == Sum([p * v for p, v in zip(ps, vs)])],
                  And(mn <= o, o <= mx)),
                 (f"agg.to_overall_le_between_when_overall_inside[k={k}]", [mn <= o, o <= mx], to_overall <= mx - mn)]
    prove_all(rep, "lemma::agg", jobs)
    rep.trust("the lemmas are unrolled for k <= 4 groups (S level for the group count; all real values)")
