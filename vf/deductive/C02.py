"""C02 deductive part.

P: ratio_sub_one (nested helper of DisaggregatedResult.ratio): r -> min(r, 1/r) with 0 < result <= 1 for r > 0, 0 for r = 0.  The clause for
   r < 0 is taken from the property text ('the smallest of min(r, 1/r)') and is refuted by z3 with r = -1/2, replayed natively: this is the
   known finding C02:ratio:negative-values.  Aggregate lemmas (max-min, 2x, sandwich) in vf/deductive/C02_lemmas.py when present.
"""
from ..contracts import mf_cache
from ..contracts.aggregates import ApplyGrouping, Difference, Ratio
from ..contracts.small import RatioSubOne
from ..pyvc import verify


def run_deductive(rep):
    rep.assume("A1", "A3", "A4")
    rep.trust("z3 (nonlinear real arithmetic)", "pyvc symbolic executor")
    items = [(RatioSubOne(), [("ge_instead_of_gt", verify.flip_strictness(0))])]
    for f in ("min", "max", "median"):
        for e in ("raise", "coerce", "ignore"):
            items.append((ApplyGrouping(f, e), []))
    for m in ("between_groups", "to_overall", "sideways"):
        for e in ("raise", "coerce"):
            dc, rc = [], []
            if m == "between_groups" and e == "coerce":
                dc = [("absolute_value_dropped", verify.replace_expr("(mf - subtrahend).abs().max()", "(mf - subtrahend).min()"))]
                rc = [("max_over_min", verify.replace_expr("self.apply_grouping('min', control_feature_names, errors=errors) / self.apply_grouping('max', control_feature_names, errors=errors)",
                                                           "self.apply_grouping('max', control_feature_names, errors=errors) / self.apply_grouping('min', control_feature_names, errors=errors)"))]
            if m == "to_overall" and e == "coerce":
                dc = [("distance_to_the_group_minimum_instead_of_overall", verify.replace_expr("subtrahend = self.overall", "subtrahend = self.apply_grouping('min', control_feature_names, errors=errors)") if False else
                       verify.replace_expr("self.overall", "self.apply_grouping('min', control_feature_names, errors=errors)"))]
                rc = [("largest_folded_ratio", verify.replace_expr("ratios.min()", "ratios.max()"))]
            items.append((Difference(m, e), dc))
            items.append((Ratio(m, e), rc))
    # integer-valued metric cells (counts): numpy integers are scalars, errors='coerce' must agree with errors='raise'
    items.append((ApplyGrouping("min", "coerce", int_cells=True), [("only_floats_count_as_scalars", verify.replace_expr("np.isscalar(y)", "isinstance(y, float)"))]))
    items.append((ApplyGrouping("max", "raise", int_cells=True), []))
    items.append((Difference("between_groups", "coerce", int_cells=True), []))
    items.append((Difference("to_overall", "coerce", int_cells=True), []))
    items.append((Ratio("between_groups", "coerce", int_cells=True), []))
    # with control features: one generic control-feature combination (stratum) of a (control x sensitive)-indexed by_group
    for e in ("raise", "coerce"):
        items.append((ApplyGrouping("min", e, cf=True), []))
        items.append((ApplyGrouping("max", e, cf=True), [("grouped_by_column_instead_of_index_level", verify.replace_expr("self.by_group.groupby(level=control_feature_names)", "self.by_group.groupby(control_feature_names)"))] if e == "raise" else []))
        items.append((Difference("between_groups", e, cf=True), []))
        items.append((Difference("to_overall", e, cf=True), [("stratum_minimum_not_broadcast", verify.replace_expr("(mf - subtrahend).abs().groupby(level=control_feature_names).max()", "(mf - subtrahend).abs().max()"))] if e == "coerce" else []))
        items.append((Ratio("between_groups", e, cf=True), []))
    rep.trust("pandas agg/min/max on non-NaN columns are the extrema; frame.apply / Series.apply / transform are column-wise / element-wise (assumed); one generic metric column, "
              "no control features, scalar non-NaN cells (the rest: bounded stand-in)")
    # the MetricFrame side: the result cache between the public aggregates and DisaggregatedResult (writer, helper, readers, documented defaults)
    items.extend(mf_cache.items(verify))
    verify.verify_many(rep, items)
    try:
        from . import C02_lemmas
        C02_lemmas.run(rep)
    except ImportError:
        pass
