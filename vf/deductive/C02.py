"""C02 deductive part.

P: ratio_sub_one (nested helper of DisaggregatedResult.ratio): r -> min(r, 1/r) with 0 < result <= 1 for r > 0, 0 for r = 0.  The clause for
   r < 0 is taken from the property text ('the smallest of min(r, 1/r)') and is refuted by z3 with r = -1/2, replayed natively: this is the
   known finding C02:ratio:negative-values.  Aggregate lemmas (max-min, 2x, sandwich) in vf/deductive/C02_lemmas.py when present.
"""
from ..contracts.aggregates import ApplyGrouping, Difference, Ratio
from ..contracts.small import RatioSubOne
from ..pyvc import verify


def run_deductive(rep):
    rep.assume("A1", "A3", "A4")
    rep.trust("z3 (nonlinear real arithmetic)", "pyvc symbolic executor")
    items = [(RatioSubOne(), [("ge_instead_of_gt", verify.flip_strictness(0))])]
    for f in ("min", "max", "median"):
        for e in ("raise", "coerce", "ignore"):
            items.append((ApplyGrouping(f, e), []))
    for m in ("between_groups", "to_overall", "sideways"):
        for e in ("raise", "coerce"):
            dc, rc = [], []
            if m == "between_groups" and e == "coerce":
                dc = [("absolute_value_dropped", verify.replace_expr("(mf - subtrahend).abs().max()", "(mf - subtrahend).min()"))]
                rc = [("max_over_min", verify.replace_expr("self.apply_grouping('min', control_feature_names, errors=errors) / self.apply_grouping('max', control_feature_names, errors=errors)",
                                                           "self.apply_grouping('max', control_feature_names, errors=errors) / self.apply_grouping('min', control_feature_names, errors=errors)"))]
            if m == "to_overall" and e == "coerce":
                dc = [("distance_to_the_group_minimum_instead_of_overall", verify.replace_expr("subtrahend = self.overall", "subtrahend = self.apply_grouping('min', control_feature_names, errors=errors)") if False else
                       verify.replace_expr("self.overall", "self.apply_grouping('min', control_feature_names, errors=errors)"))]
                rc = [("largest_folded_ratio", verify.replace_expr("ratios.min()", "ratios.max()"))]
            items.append((Difference(m, e), dc))
            items.append((Ratio(m, e), rc))
    rep.trust("pandas agg/min/max on non-NaN columns are the extrema; frame.apply / Series.apply / transform are column-wise / element-wise (assumed); one generic metric column, "
              "no control features, scalar non-NaN cells (the rest: bounded stand-in)")
    verify.verify_many(rep, items)
    try:
        from . import C02_lemmas
        C02_lemmas.run(rep)
    except ImportError:
        pass
