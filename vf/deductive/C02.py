"""C02 deductive part.

P: ratio_sub_one (nested helper of DisaggregatedResult.ratio): r -> min(r, 1/r) with 0 < result <= 1 for r > 0, 0 for r = 0.  The clause for
   r < 0 is taken from the property text ('the smallest of min(r, 1/r)') and is refuted by z3 with r = -1/2, replayed natively: this is the
   known finding C02:ratio:negative-values.  Aggregate lemmas (max-min, 2x, sandwich) in vf/deductive/C02_lemmas.py when present.
"""
from ..contracts.small import RatioSubOne
from ..pyvc import verify


def run_deductive(rep):
    rep.assume("A1", "A3", "A4")
    rep.trust("z3 (nonlinear real arithmetic)", "pyvc symbolic executor")
    verify.verify_many(rep, [(RatioSubOne(), [("ge_instead_of_gt", verify.flip_strictness(0))])])
    try:
        from . import C02_lemmas
        C02_lemmas.run(rep)
    except ImportError:
        pass
