"""C08: _Lagrangian._eval / eval_gap and the iteration + selection logic of ExponentiatedGradient.fit under contract."""
from ..contracts.expgrad import Eval, EvalGap, FitLoop
from ..pyvc import verify


def items(rep):
    rep.trust("callee contracts: best_h returns a stored predictor index; solve_linprog returns a distribution over the stored predictors with its gap result (scipy linprog, A2); "
              "constraints.gamma / bound / project_lambda as in C06/C07", "pandas: boolean-mask selection keeps order; index[-1] of a default index is the last selected position (assumed)",
              "vector arithmetic is opaque in these VCs (the gap bookkeeping over the lists gaps / Qs is exact)")
    return [(Eval(True), [("bound_not_subtracted_in_L", verify.replace_expr("lambda_vec * (gamma - self.constraints.bound())", "lambda_vec * gamma")),
                          ("L_high_without_positive_part", verify.replace_expr("max_constraint > 0", "True"))]),
            (Eval(False), []),
            (EvalGap(), [("L_low_keeps_the_larger_value", verify.replace_expr("L_low_mul < result.L_low", "L_low_mul > result.L_low")),
                         ("best_response_to_lambda_hat_itself_never_tried", verify.replace_expr("[1.0, 2.0, 5.0, 10.0]", "[2.0, 5.0, 10.0]"))]),
            (FitLoop(True), [("records_the_larger_gap", verify.replace_expr("gap_EG < gap_LP", "gap_EG > gap_LP")),
                             ("stops_without_reaching_nu", verify.replace_expr("gaps[t] < self.nu", "gaps[t] < 2 * self.nu")),
                             ("returns_the_first_iteration", verify.replace_expr("gaps_best.index[-1]", "0")),
                             ("best_gap_from_the_last_iteration", verify.replace_expr("gaps[self.best_iter_]", "gaps[-1]"))]),
            (FitLoop(False), [])]
