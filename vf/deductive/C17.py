"""C17 deductive part: the step schedule of _AdversarialFairness.fit (loop nest with ghost traces), for 0, 1 and 2 callbacks."""
from ..contracts.schedule import FitSchedule
from ..pyvc import verify


def run_deductive(rep):
    rep.assume("A3", "A4", "A5", "A7")
    rep.trust("math.ceil(a/b) for positive ints a,b is the c with (c-1)*b < a <= c*b (assumed; exact quotient)",
              "backend train_step/shuffle keep the number of rows (assumed)", "inductive definition of mul(e,B)", "z3 (E-matching, NIA)",
              "pyvc symbolic executor", "statements before `if self.epochs == -1 and self.max_iter == -1` (input validation) are outside this VC")
    items = [(FitSchedule(0), [("slice_upper_off_by_one", verify.replace_expr("(batch + 1) * batch_size", "(batch + 1) * batch_size - 1")),
                               ("slice_lower_from_one", verify.replace_expr("batch * batch_size", "batch * batch_size + 1"))]),
             (FitSchedule(1), [("callbacks_before_budget_check", verify.replace_expr("self.n_iter_ >= self.max_iter", "self.n_iter_ > self.max_iter"))]),
             (FitSchedule(2), [])]
    verify.verify_many(rep, items, timeout_ms=60000)
    try:
        from . import C17_more
        C17_more.run(rep)
    except ImportError:
        pass
