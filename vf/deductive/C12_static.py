"""C12: index-provenance type-state over the entry points (vf/static/provenance.py)."""
from ..static import provenance


def run(rep):
    provenance.report(rep)
