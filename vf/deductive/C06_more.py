"""C06: constraint matrix of UtilityParity (U loop of load_data, gamma, bound) point-wise + lemma gamma.mean."""
import z3
from z3 import And, Function, Int, IntSort, Real, RealSort

from ..contracts.events import MOMENTS, EventConstruction
from ..contracts.loss_moments import LossEval
from ..contracts.moments_matrix import Bound, Gamma, LoadDataPrologue, UMatrixLoop
from ..pyvc import solve, verify


def lemma_gamma_mean(rep):
    fn = "lemma::gamma.mean"
    Se, Seg, ne, neg, nn, r = (Real(x) for x in ("S_e", "S_eg", "n_e", "n_eg", "n", "r"))
    hyp = [nn > 0, ne > 0, neg > 0]
    PEv, PEGv = ne / nn, neg / nn
    gp = -(Se / PEv - r * Seg / PEGv) / nn
    gm = -(-r * Se / PEv + Seg / PEGv) / nn
    jobs = [("gamma.mean.plus_entry_is_r_mean_eg_minus_mean_e", hyp, gp == r * Seg / neg - Se / ne),
            ("gamma.mean.minus_entry_is_r_mean_e_minus_mean_eg", hyp, gm == r * Se / ne - Seg / neg)]
    # sum linearity  sum_i (a*x_i + b*y_i) = a*sum x + b*sum y  by induction (base, step)
    x, y = Function("x", IntSort(), RealSort()), Function("y", IntSort(), RealSort())
    SX, SY, SL = (Function(nm, IntSort(), RealSort()) for nm in ("sum_x", "sum_y", "sum_lin"))
    a, b, t = Real("a"), Real("b"), Int("t")
    P = lambda u: SL(u) == a * SX(u) + b * SY(u)
    jobs += [("sum.linearity.base", [SX(0) == 0, SY(0) == 0, SL(0) == 0], P(z3.IntVal(0))),
             ("sum.linearity.step", [P(t), SX(t + 1) == SX(t) + x(t), SY(t + 1) == SY(t) + y(t), SL(t + 1) == SL(t) + (a * x(t) + b * y(t))], P(t + 1))]
    for name, hyps, goal in jobs:
        res = solve.prove(name, hyps, goal)
        rep.add_obligation("lemma." + name, fn, "discharged" if res.status == "unsat" else "undecided", res.backend, res.secs, "P",
                           detail=None if res.status == "unsat" else res.status)
    rep.trust("natural-number induction schema (sum linearity)", "pandas groupby(...).size()/n gives prob_event[e] = n_e/n and prob_group_event[e,g] = n_eg/n, "
              "one entry per (event, group) pair that occurs, null events dropped (assumed; exercised by the bounded stand-in)")


def _event_canaries(m, c):
    if m == "TruePositiveRateParity" and c:
        return [("conditions_on_the_wrong_label", verify.replace_expr("y_train == 1", "y_train == 0"))]
    if m == "FalsePositiveRateParity" and not c:
        return [("every_row_gets_an_event", verify.replace_expr("y_train.apply(lambda v: _LABEL + '=' + str(v)).where(y_train == 0)", "y_train.apply(lambda v: _LABEL + '=' + str(v))"))]
    if m == "ErrorRateParity" and not c:
        return [("utilities_swapped", verify.replace_expr("[y_train, 1 - y_train]", "[1 - y_train, y_train]"))]
    if m == "DemographicParity" and c:
        return [("raw_sensitive_features_handed_on", verify.replace_expr("sf_train", "sensitive_features", 1))]
    return []


def items(rep):
    lemma_gamma_mean(rep)
    return [(UMatrixLoop(), [("ratio_moved_to_the_event_term", verify.replace_expr("event_select / self.prob_event[e] + -self.ratio * group_event_select / self.prob_group_event[e, g]",
                                                                                  "-self.ratio * event_select / self.prob_event[e] + group_event_select / self.prob_group_event[e, g]")),
                             ("group_term_normalised_by_event_probability", verify.replace_expr("self.prob_group_event[e, g]", "self.prob_event[e]", 1))]),
            (Gamma(column_output=True), []),
            (Gamma(), [("sign_dropped", verify.replace_expr("-self.U.T.dot(pred) / self.total_samples", "self.U.T.dot(pred) / self.total_samples")),
                       ("base_utility_from_the_wrong_column", verify.replace_expr("self.utilities[:, 0]", "self.utilities[:, 1]"))]),
            (Bound(), []),
            (LoadDataPrologue(False), [("group_probabilities_without_the_event", verify.replace_expr("self.tags.groupby([_EVENT, _GROUP_ID])", "self.tags.groupby([_GROUP_ID])")),
                                       ("only_plus_constraints", verify.replace_expr("keys=['+', '-']", "keys=['+', '+']") if False else verify.replace_expr("['+', '-']", "['+', '+']"))]),
            (LoadDataPrologue(True), []),
            *[(EventConstruction(m, c), _event_canaries(m, c)) for m in MOMENTS for c in (False, True)],
            (LossEval("SquareLoss"), [("prediction_not_clipped", verify.replace_expr("np.clip(y_pred, self.min_val, self.max_val)", "y_pred"))]),
            (LossEval("AbsoluteLoss"), [("signed_difference", verify.replace_expr("np.abs(np.clip(y_true, self.min_val, self.max_val) - np.clip(y_pred, self.min_val, self.max_val))",
                                                                                  "np.clip(y_true, self.min_val, self.max_val) - np.clip(y_pred, self.min_val, self.max_val)"))])]
