"""C20 deductive part: 'normal return => valid input' postconditions of constructors and validators.

P: UtilityParity.__init__ (conflicting / out-of-range bounds), ErrorRate.__init__ (cost dictionaries), GridSearch.__init__ (constraint type,
   selection rule, constraint_weight range), ThresholdOperation.__init__, _calculate_tradeoff_points (group lacking a label raises),
   _get_labels_for_confusion_matrix (unsupported encodings raise); dominance of validators in vf/deductive/C20_more.py when present.
"""
from ..contracts.base_metrics import GetLabels
from ..contracts.moments_basic import UtilityParityInit
from ..contracts.small import ErrorRateInit, GridSearchInit, ThresholdOpInit
from ..contracts.tradeoff import TradeoffPoints
from ..pyvc import verify


def run_deductive(rep):
    rep.assume("A1", "A2", "A3", "A4")
    rep.trust("isinstance(constraints, Moment) as given (both outcomes verified)", "z3", "pyvc symbolic executor")
    items = []
    for a in (False, True):
        for b in (False, True):
            items.append((UtilityParityInit(a, b), []))
    for k in ("none", "ok_keys", "missing_key", "extra_key", "empty", "not_a_dict"):
        items.append((ErrorRateInit(k), [("accept_zero_total_cost", verify.replace_expr("costs['fp'] + costs['fn'] > 0.0", "costs['fp'] + costs['fn'] >= 0.0"))] if k == "ok_keys" else []))
    for a in (True, False):
        for b in (True, False):
            items.append((GridSearchInit(a, b), [("weight_upper_bound_dropped", verify.replace_expr("0.0 <= constraint_weight <= 1.0", "0.0 <= constraint_weight"))] if a and b else []))
    items.append((ThresholdOpInit(), []))
    items.append((TradeoffPoints("false_positive_rate", "true_positive_rate", False),
                  [("degenerate_check_and_instead_of_or", verify.replace_expr("n_positive == 0 or n_negative == 0", "n_positive == 0 and n_negative == 0"))]))
    for L in (1, 2, "many"):
        for pos in (False, True):
            items.append((GetLabels(L, pos, "int"), []))
    try:
        from . import C20_more
        items += C20_more.items(rep)
    except ImportError:
        pass
    verify.verify_many(rep, items)


# call-site conformance (validator dominance) is reported after the SMT obligations
_run_smt = run_deductive


def run_deductive(rep):        # noqa: F811
    _run_smt(rep)
    from ..static import dominance
    for ep in dominance.ENTRY_POINTS:
        dominance.report(rep, *ep)
    try:
        from ..static import fitted_guard
        fitted_guard.report(rep)
    except ImportError:
        pass
