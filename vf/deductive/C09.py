"""C09 deductive part (so far): GridSearch.__init__ argument contract; lattice generator / selection in vf/deductive/C09_more.py when present."""
from ..contracts.small import GridSearchInit
from ..pyvc import verify


def run_deductive(rep):
    rep.assume("A1", "A3", "A4")
    rep.trust("z3", "pyvc symbolic executor")
    items = [(GridSearchInit(a, b), []) for a in (True, False) for b in (True, False)]
    try:
        from . import C09_more
        items += C09_more.items(rep)
    except ImportError:
        pass
    verify.verify_many(rep, items)
    from ..static import frames
    frames.report(rep, classes=["GridSearch"], conditions=("F4", "F5", "F6"))      # delegation after any history: predict / predict_proba keep no private state (frame conditions F5/F6), fit returns self
