"""helper: discharge a list of lemma obligations (name, hyps, goal) and register them in the report"""
from ..pyvc import solve


def prove_all(rep, fn, jobs, label="P", timeout_ms=30000):
    ok_all = True
    for name, hyps, goal in jobs:
        r = solve.prove(name, list(hyps), goal, timeout_ms)
        ok = r.status == "unsat"
        ok_all &= ok
        rep.add_obligation("lemma." + name, fn, "discharged" if ok else "undecided", r.backend, r.secs, label, detail=None if ok else f"{r.status} {r.reason}"[:200])
    return ok_all
