"""C15 deductive part: CorrelationRemover.fit / transform against point-wise contracts, plus the lemma cov.zero.

P: fit stores the per-column mean of the sensitive block and the least-squares coefficients of X_use on the column-centred sensitive columns;
   transform computes alpha*(X_use - (S - 1*mean^T).beta) + (1-alpha)*X_use with the stored mean/coefficients, cell by cell, for any shape.
Lemma cov.zero: from the normal equations sum_i Sc[i,j]*R[i,l] = 0 and centred columns sum_i Sc[i,j] = 0 follows
   sum_i Sc[i,j]*(R[i,l] - rbar) = 0 (zero sample covariance); the sum identity is proved by induction (base/step discharged by z3).
"""
import z3
from z3 import Function, Int, IntSort, Real, RealSort

from ..contracts.corr_remover import CreateLookup, Fit, SplitX, Transform
from ..pyvc import solve, verify


def lemma_cov_zero(rep):
    fn = "lemma::cov.zero"
    a, b = Function("a", IntSort(), RealSort()), Function("b", IntSort(), RealSort())
    SA, SAB, SAC = (Function(nm, IntSort(), RealSort()) for nm in ("sum_a", "sum_ab", "sum_a_b_minus_c"))
    c, t = Real("c"), Int("t")
    defs = lambda u: [SA(u + 1) == SA(u) + a(u), SAB(u + 1) == SAB(u) + a(u) * b(u), SAC(u + 1) == SAC(u) + a(u) * (b(u) - c)]
    P = lambda u: SAC(u) == SAB(u) - c * SA(u)
    jobs = [("cov.zero.sum_identity.base", [SA(0) == 0, SAB(0) == 0, SAC(0) == 0], P(z3.IntVal(0))),
            ("cov.zero.sum_identity.step", [P(t)] + defs(t), P(t + 1)),
            ("cov.zero.conclusion", [P(t), SAB(t) == 0, SA(t) == 0], SAC(t) == 0)]
    for name, hyps, goal in jobs:
        r = solve.prove(name, hyps, goal)
        rep.add_obligation("lemma." + name, fn, "discharged" if r.status == "unsat" else "undecided", r.backend, r.secs, "P", detail=None if r.status == "unsat" else r.status)
    rep.trust("natural-number induction schema (sum identity of cov.zero)", "np.linalg.lstsq returns coefficients satisfying the normal equations A^T(B - A beta) = 0 (assumed)")


def run_deductive(rep):
    rep.assume("A1", "A2", "A3", "A4")
    rep.trust("numpy shape/point-wise contracts of vf/contracts/ndmodel.py; mean(axis=0) is the column mean, mean() the grand mean (distinct spec functions)",
              "contract of CorrelationRemover._split_X (sensitive / remaining columns, order kept) - exercised by the bounded stand-in", "z3", "pyvc symbolic executor")
    items = [(Fit(True), [("grand_mean_instead_of_column_means", verify.replace_expr("X_sensitive.mean(axis=0)", "X_sensitive.mean()")),
                          ("regress_on_uncentred_columns", verify.replace_expr("np.linalg.lstsq(X_s_center, X_use, rcond=None)", "np.linalg.lstsq(X_sensitive, X_use, rcond=None)"))]),
             (Fit(False), []),
             (Transform(), [("alpha_weights_swapped", verify.replace_expr("self.alpha * X_filtered + (1 - self.alpha) * X_use", "(1 - self.alpha) * X_filtered + self.alpha * X_use")),
                            ("recentre_with_the_new_data_mean", verify.replace_expr("X_sensitive - self.sensitive_mean_", "X_sensitive - X_sensitive.mean(axis=0)"))])]
    items[1] = (Fit(False), [("column_table_kept_from_the_first_fit", verify.replace_expr("self._create_lookup(X)", "first_call and self._create_lookup(X)"))])
    verify.verify_many(rep, items)
    # _split_X: concrete widths (label S: every id value and lookup table, bounded shape)
    shapes = [(1, 0), (1, 1), (2, 1), (2, 2), (3, 1), (3, 2)] + ([(3, 3), (4, 2)] if rep.tier == "thorough" else [])
    sx = []
    for (m_, k_) in shapes:
        for int_ids in ((True, False) if k_ else (True,)):
            can = []
            if (m_, k_, int_ids) == (3, 2, True):
                can = [("integer_ids_taken_as_positions", verify.replace_expr("self.lookup_[i]", "(i if isinstance(i, int) else self.lookup_[i])")),
                       ("sensitive_columns_sorted", verify.replace_expr("X[:, sensitive]", "X[:, sorted(sensitive)]"))]
            sx.append((SplitX(m_, k_, int_ids), can))
    # the callee contract Fit relies on ('lookup_ is the column table of the X of THIS call'), discharged on the real _create_lookup for 1..3 columns of any names
    for kc in (1, 2, 3):
        for stale in (False, True):
            can = [("table_rebuilt_only_when_missing", verify.replace_expr("{c: i for i, c in enumerate(X.columns)}", "getattr(self, 'lookup_', None) or {c: i for i, c in enumerate(X.columns)}"))] if (kc, stale) == (2, True) else []
            sx.append((CreateLookup(kc, stale), can))
    verify.verify_many(rep, sx, label="S")
    lemma_cov_zero(rep)
    from ..static import frames
    # transform keeps no private state and never writes the fitted coefficients (F5/F6); fit computes mean / coefficients / column table from the data of THIS call
    # (F3: no fitted attribute is read before it is written - a column table or a mean surviving from an earlier fit decorrelates the wrong columns).  The one
    # recorded F3 effect (_n_features_in_: a refit on another width raises instead of fitting) is C19's finding and produces no output at all, so it is left to C19.
    frames.report(rep, classes=["CorrelationRemover"], conditions=("F1", "F3", "F4", "F5", "F6"), ignore={("CorrelationRemover", "F3", "_n_features_in_")})
