"""C08 deductive part (so far): _GapResult.gap and the saddle-point lemma; _eval/eval_gap/fit selection in vf/deductive/C08_more.py when present."""
from ..contracts.small import GapResultGap
from ..pyvc import verify


def run_deductive(rep):
    rep.assume("A1", "A3", "A4")
    rep.trust("z3", "pyvc symbolic executor")
    items = [(GapResultGap(), [("min_instead_of_max", verify.replace_expr("max(self.L - self.L_low, self.L_high - self.L)", "min(self.L - self.L_low, self.L_high - self.L)"))])]
    try:
        from . import C08_more
        items += C08_more.items(rep)
    except ImportError:
        pass
    verify.verify_many(rep, items)
    try:
        from . import C08_lemmas
        C08_lemmas.run(rep)
    except ImportError:
        pass
    from ..static import frames as _frames
    _frames.report(rep, table=_frames.CALLABLES, conditions=("F5",))      # a stored predictor keeps no memory of earlier calls (same object refilled in place -> new answer)
