"""C09: the grid loop of GridSearch.fit (relabel/reweight per column, faithful records, argmin selection) and predict/predict_proba delegation."""
from ..contracts.grid_generator import AccumulateIntegerGrid
from ..contracts.gridsearch_fit import Delegate, FitLoop
from ..pyvc import verify


def items(rep):
    rep.trust("callee contracts: constraints.signed_weights(lambda) / objective.signed_weights() are position-aligned Series (C07, C12); "
              "objective.gamma(f) / constraints.gamma(f) evaluate the predictor function f on the loaded data (C06)",
              "list.index returns the first occurrence, min() the minimum (CPython contracts)",
              "_GridGenerator.accumulate_integer_grid is verified modularly (budget, signs, prefix); distinctness of the entries, the scaling to grid_limit and the "
              "basis products of _GridGenerator.__init__ are bounded only", "recursive definition of the ghost function sum_abs_from")
    return [(FitLoop(), [("relabel_nonnegative_as_positive", verify.replace_expr("weights > 0", "weights >= 0")),
                         ("weights_not_made_absolute", verify.replace_expr("weights.abs()", "weights")),
                         ("objective_weights_always_added", verify.replace_expr("not objective_in_the_span", "True")),
                         ("select_the_worst", verify.replace_expr("min(losses)", "max(losses)")),
                         ("gammas_recorded_from_the_objective", verify.replace_expr("self.constraints.gamma(predict_fct)", "objective.gamma(predict_fct)")),
                         ("constraint_term_uses_its_own_index_as_label", verify.replace_expr("grid.columns[i]", "i"))]),
            (Delegate("predict"), [("always_first_predictor", verify.replace_expr("self.predictors_[self.best_idx_]", "self.predictors_[0]"))]),
            (Delegate("predict_proba"), []),
            (AccumulateIntegerGrid(), [("budget_not_reduced_by_the_chosen_value", verify.replace_expr("max_val - abs(current_value)", "max_val")),
                                       ("negative_values_for_every_coordinate", verify.replace_expr("-max_val if self.neg_allowed[index] else 0", "-max_val")),
                                       ("one_value_beyond_the_budget", verify.replace_expr("max_val + 1", "max_val + 2"))])]
