"""C17: the discrete prediction functions (binary threshold at 0.5, multiclass arg-max one-hot, identity for regression)."""
from ..contracts.adv_predict import AM, BinaryPredictor, SetPredictorFunction, classifier_threshold_obligation
from ..pyvc import verify


def run(rep):
    items = [(BinaryPredictor(), [("strictly_greater", verify.flip_strictness(0))])]
    for kw in ("binary", "multiclass", "continuous", "<callable>", "ordinal", "<number>"):
        can = [("argmax_over_rows", verify.replace_expr("argmax(pred, axis=1)", "argmax(pred, axis=0)"))] if kw == "multiclass" else []
        items.append((SetPredictorFunction(kw), can))
    verify.verify_many(rep, items)
    try:
        ok, line, sha = classifier_threshold_obligation()
        rep.add_function(AM, "AdversarialFairnessClassifier.__init__", line, sha, role="under contract (call-site obligation)")
        name = "AdversarialFairnessClassifier.__init__.threshold_value_is_one_half"
        if ok:
            rep.add_obligation(name, AM, "discharged", "ast-dataflow", 0.0, "P")
        else:
            rep.add_obligation(name, AM, "failed", "ast-dataflow", 0.0, "P")
            rep.violation("C17:classifier-threshold-not-0.5", "AdversarialFairnessClassifier does not pass threshold_value=0.5 to the base constructor",
                          replay={"obligation": name}, obligation=name, no_input=True)
    except Exception as ex:
        rep.add_obligation("AdversarialFairnessClassifier.__init__.threshold_value_is_one_half", AM, "undecided", "ast-dataflow", 0.0, "P", detail=repr(ex)[:200])
    rep.trust("inverse_transform through OneHotEncoder(drop='if_binary') categories maps predictions back to training labels (assumed; bounded stand-in)")
