"""C11 deductive part: lemma wsum.multiplicity over the weighted-sum normal forms of the base metrics (C14).

Every metric that takes sample_weight is a ratio of weighted sums  (sum_i w_i a_i)/(sum_i w_i b_i)  (contract of sklearn's weighted
confusion matrix, and the dot/sum forms of selection_rate and mean_prediction).  Lemma: such a ratio is invariant under (1) replacing a row of
integer weight k by k unit-weight copies (ghost loop over the copies: invariant  partial sums = j * (a, b)), (2) scaling all weights by c > 0,
(3) and equals the unweighted form for w = 1.  The scalar shape for single weighted rows is proved in C14 (ScalarShape)."""
from z3 import And, Int, Real

from ..contracts.shapes import ScalarShape
from ..pyvc import verify
from ._lemma import prove_all


def run_deductive(rep):
    rep.assume("A1", "A2", "A3", "A4")
    rep.trust("normal forms: rates = ratios of weighted counts (sklearn confusion_matrix contract, assumed); selection_rate/mean_prediction = dot/sum", "z3")
    A, Bs, a, b, c = (Real(x) for x in ("A", "B", "a", "b", "c"))
    j, k = Int("j"), Int("k")
    pa, pb = Real("pa"), Real("pb")
    jobs = [  # ghost loop adding k unit copies of a row (a, b): invariant (pa, pb) = j*(a, b)
        ("wsum.copies.invariant_on_entry", [], And(0 * a == 0, 0 * b == 0)),
        ("wsum.copies.invariant_preserved", [pa == j * a, pb == j * b, j >= 0, j < k], And(pa + a == (j + 1) * a, pb + b == (j + 1) * b)),
        ("wsum.copies.postcondition", [pa == j * a, pb == j * b, j == k, A + k * b != 0 if False else Bs + k * b != 0], (A + pa) / (Bs + pb) == (A + k * a) / (Bs + k * b)),
        ("wsum.scale_invariance", [c > 0, Bs != 0], (c * A) / (c * Bs) == A / Bs),
        ("wsum.unit_weights_are_the_unweighted_form", [Bs != 0], (1 * A) / (1 * Bs) == A / Bs)]
    prove_all(rep, "lemma::wsum.multiplicity", jobs)
    from ..contracts.base_metrics import Rate
    items = [(ScalarShape(f, w), []) for f in ("selection_rate", "mean_prediction") for w in (True, False)] + [(Rate(f), []) for f in Rate.COMPONENT]
    # MetricFrame sample_params: the weights reach every group slice exactly like the rows (column of the same frame, values copied label-free)
    from ..contracts.fairness_metrics import SPEC, NamedMetric
    from ..contracts.metricframe import AnnotatedCall, ConstructAMF, GetAnnotatedFunctions
    items += [(ConstructAMF([("sample_weight", False)]), [("weights_stored_with_the_callers_index", verify.replace_expr("np.asarray(param_value)", "param_value"))]),
              (AnnotatedCall({"sample_weight": "m_sample_weight"}), []),
              (GetAnnotatedFunctions("callable"), []), (GetAnnotatedFunctions("dict"), [("callers_dictionary_emptied", verify.replace_expr("sample_params.get(name, {})", "sample_params.pop(name, {})"))])]
    items += [(NamedMetric(f, "worst_case" if SPEC[f][2] else None), []) for f in SPEC]
    verify.verify_many(rep, items)
    from ..static import provenance
    provenance.report(rep, only=["_metric_frame.py"])
