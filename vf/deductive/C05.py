"""C05 deductive part: optimality of the stored two-vertex mixture.

P: hull contract (coverage + strict concavity from the real source) and completeness clauses of _calculate_tradeoff_points (both constant
   rules present => never worse than the best constant classifier on the grid end points); lemmas hull.support and jensen.mix
   (vf/deductive/C05_lemmas.py when present) turn coverage into 'the interpolated y(x) is the maximum over all mixtures with mean abscissa x'.
"""
from ..pyvc import verify
from .C04 import hull_item, tradeoff_items


def run_deductive(rep):
    rep.assume("A1", "A2", "A3", "A4", "A5")
    rep.trust("pandas dependency contracts as in C04", "z3", "pyvc symbolic executor")
    from ..contracts.to_simple import SimpleConstraints
    from .C04_more import simple_canaries
    from ..contracts.to_eo import EqualizedOddsSelection
    items = [hull_item()] + tradeoff_items("quick")[:2] + [(SimpleConstraints(), simple_canaries()[1:2] + simple_canaries()[3:])]
    # equalized odds: the shared grid point maximises the overall (balanced) accuracy of the classifier on the pointwise-lowest hull
    items += [(EqualizedOddsSelection("accuracy_score"), [("worst_grid_point_selected", verify.replace_expr("objective_values.idxmax()", "objective_values.idxmin()"))]),
              (EqualizedOddsSelection("balanced_accuracy_score"), [])]
    verify.verify_many(rep, items)
    from ..static import provenance
    provenance.report(rep, only=("postprocessing/",))
    try:
        from . import C05_lemmas
        C05_lemmas.run(rep)
    except ImportError:
        pass
