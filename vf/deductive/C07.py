"""C07 deductive part: signed_weights is the adjoint of gamma; project_lambda; best-response lemma.

P: UtilityParity.signed_weights = utility_diff * (U lambda) with the same U object that gamma uses (= -(U^T(utility_diff*h + u0))/n, proved in C06);
   project_lambda point-wise (positive/negative part of lambda_+ - lambda_-; identity for ratio constraints);
   lemmas: lagrangian.project (L(h, lambda') >= L(h, lambda) for every h when gamma_- = -gamma_+, eps >= 0), best_response
   (|w|*1[h != 1[w>0]] = max(w,0) - w*h), errorrate.difference (cost-weighted error difference = -(w)(h-h') per row), and the reduction identity
   as a finite-sum exchange (Lean 4 + Mathlib: Finset.sum_comm), see lemmas/Adjoint.lean.
"""
import os
import subprocess
import time

import z3
from z3 import And, If, Real, RealVal

from ..contracts.call_oracle import CallOracle
from ..contracts.gridsearch_fit import FitLoop
from ..contracts.loss_moments import ErrorRateSignedWeights, LossSignedWeights
from ..contracts.moments_matrix import Gamma, ProjectLambda, SignedWeights
from ..pyvc import solve, verify
from ..report import ROOT


def lemmas(rep):
    fn = "lemma::C07"
    lp, lm, gp, eps, w, h, h2, y, cfp, cfn = (Real(x) for x in ("lp", "lm", "gp", "eps", "w", "h", "h2", "y", "cfp", "cfn"))
    d = lp - lm
    lp2, lm2 = If(d > 0, d, 0), If(-d > 0, -d, 0)
    gm = -gp
    lag = lambda a, b: a * (gp - eps) + b * (gm - eps)
    absw = If(w >= 0, w, -w)
    lab = If(w > 0, RealVal(1), RealVal(0))
    err = lambda hh: cfn * If(y - hh > 0, y - hh, 0) + cfp * If(hh - y > 0, hh - y, 0)
    ww = -cfp + (cfp + cfn) * y
    jobs = [("lagrangian.project_lambda_never_lowers_the_lagrangian", [lp >= 0, lm >= 0, eps >= 0], lag(lp2, lm2) >= lag(lp, lm)),
            ("best_response.weighted_01_error_against_relabelled_data", [z3.Or(h == 0, h == 1)], absw * If(h != lab, RealVal(1), RealVal(0)) == If(w > 0, w, 0) - w * h),
            ("errorrate.difference_is_minus_w_times_h_difference", [z3.Or(y == 0, y == 1), h >= 0, h <= 1, h2 >= 0, h2 <= 1, cfp >= 0, cfn >= 0],
             err(h) - err(h2) == -ww * (h - h2))]
    lamg, pg, ng, nn, S = (Real(x) for x in ("lam_g", "p_g", "n_g", "n", "S_g"))
    jobs.append(("lossmoment.lambda_times_group_mean_is_weighted_row_mean", [nn > 0, ng > 0, pg == ng / nn], lamg * (S / ng) == (lamg / pg) * S / nn))
    for name, hyps, goal in jobs:
        r = solve.prove(name, hyps, goal)
        rep.add_obligation("lemma." + name, fn, "discharged" if r.status == "unsat" else "undecided", r.backend, r.secs, "P", detail=None if r.status == "unsat" else r.status)


def lean_adjoint(rep):
    path = os.path.join(ROOT, "lemmas", "Adjoint.lean")
    if not os.path.exists(path):
        return
    t0 = time.time()
    try:
        p = subprocess.run(["lake", "env", "lean", path], cwd="/opt/veriftools/mathlib4", capture_output=True, text=True, timeout=900)
        out = p.stdout + p.stderr
        ok = p.returncode == 0 and "error" not in out and "sorry" not in out
    except Exception as ex:
        ok, out = False, repr(ex)
    rep.add_obligation("lemma.reduction_identity(adjoint of gamma and signed_weights, Lean/Mathlib)", "lemmas/Adjoint.lean",
                       "discharged" if ok else "undecided", "lean4+mathlib", time.time() - t0, "P", detail=None if ok else out[-300:])


def run_deductive(rep):
    rep.assume("A1", "A2", "A3", "A4")
    rep.trust("DataFrame.dot / Series arithmetic are the matrix-vector product and element-wise product on position-aligned operands (assumed)",
              "Lean 4 kernel + Mathlib (thorough tier)", "z3", "pyvc symbolic executor")
    items = [(SignedWeights(), [("utility_diff_dropped", verify.replace_expr("self.utility_diff * self.U.dot(lambda_vec)", "self.U.dot(lambda_vec)"))]),
             (Gamma(), []),
             (Gamma(column_output=True), [("column_output_broadcast_into_a_matrix", verify.replace_expr("np.squeeze(predictions)", "predictions"))]),
             (ProjectLambda(), [("clip_the_wrong_side", verify.replace_expr("lambda_pos < 0.0", "lambda_pos > 0.0"))]),
             (LossSignedWeights(True), [("multiplier_not_divided_by_group_probability", verify.replace_expr("lambda_vec / self.prob_attr", "lambda_vec"))]),
             (LossSignedWeights(False), []),
             (ErrorRateSignedWeights(True), []),
             (ErrorRateSignedWeights(False), [("false_positive_cost_sign", verify.replace_expr("-self.fp_cost", "self.fp_cost"))]),
             (CallOracle(), [("relabel_with_non_strict_test", verify.replace_expr("signed_weights > 0", "signed_weights >= 0")),
                             ("objective_weights_missing", verify.replace_expr("self.obj.signed_weights() + self.constraints.signed_weights(lambda_vec)", "self.constraints.signed_weights(lambda_vec)")),
                             ("weights_not_absolute", verify.replace_expr("signed_weights.abs()", "signed_weights"))]),
             # the consequence clause for GridSearch: per grid column the learner minimises objective + lambda.gamma, i.e. it is trained on the signed weights
             # constraints.signed_weights(lambda) + objective.signed_weights() themselves (no rescaling of either part by constraint_weight / objective_weight)
             (FitLoop(), [("objective_weights_rescaled", verify.replace_expr("weights + objective.signed_weights()", "weights + 2 * objective.signed_weights()")),
                          ("weights_not_made_absolute", verify.replace_expr("weights.abs()", "weights"))])]
    verify.verify_many(rep, items)
    lemmas(rep)
    if rep.tier == "thorough":
        lean_adjoint(rep)
    from ..static import frames
    frames.report(rep, table=frames.MOMENTS, conditions=("F5",))      # gamma / signed_weights / bound / project_lambda are pure queries of the loaded data (no caches)
