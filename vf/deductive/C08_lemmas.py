"""C08 lemma `saddle`: consequences of the gap certificate (over the contracts of _GapResult.gap / _eval).

From  L - L_low <= g,  L_high - L <= g  (gap() = max of both, proved from the source),  L_low <= L(Q*, lambda_hat) for every distribution Q*
(L_low is the minimum over the hypothesis class with an exact oracle),  lambda_hat >= 0 and Q* feasible  (so sum_j lambda_j (gamma_j(Q*) - b_j) <= 0),
L_high = err(Q) + B * max(0, max_j(gamma_j(Q) - b_j)),  0 <= err <= 1:
   err(Q) <= err(Q*) + 2 g        and        max_j (gamma_j(Q) - b_j) <= (1 + 2 g) / B        and     g >= 0.
"""
from z3 import And, If, Reals

from ._lemma import prove_all


def run(rep):
    errQ, errS, Dstar, L, Llow, Lhigh, g, B, V, LS = Reals("errQ errS Dstar L Llow Lhigh g B V LS")
    mx = If(V > 0, V, 0)
    hyp = [B > 0, 0 <= errQ, errQ <= 1, 0 <= errS, errS <= 1, Dstar <= 0, LS == errS + Dstar, Llow <= LS, Lhigh == errQ + B * mx,
           L - Llow <= g, Lhigh - L <= g, Llow <= L]      # eval_gap: L_low = min(L, ...)
    prove_all(rep, "lemma::saddle", [("saddle.error_bound", hyp, errQ <= errS + 2 * g), ("saddle.violation_bound", hyp, V <= (1 + 2 * g) / B),
                                     ("saddle.gap_nonnegative", hyp, g >= 0)])
    rep.trust("exact-oracle assumption of the property: best_h at lambda_hat attains the minimum over the hypothesis class",
              "L(Q*, lambda_hat) >= min_h L(h, lambda_hat) for a mixture Q* (a mean is at least the minimum; sum lemma, stated)")
