"""C10: InterpolatedThresholder._pmf_predict point-wise (valid distribution, depends only on score and group) + monotonicity and Bernoulli lemmas."""
import z3
from z3 import And, If, Implies, Real, RealVal

from ..contracts.eg_predict import PmfPredict as EGPmf
from ..contracts.eg_predict import Predict as EGPredict
from ..contracts.eg_predict import ThresholderPredict
from ..contracts.pmf import PmfPredict
from ..contracts.to_eo import EqualizedOddsCurves, EqualizedOddsEntries
from ..contracts.to_simple import SimpleConstraints
from ..contracts.tradeoff import TradeoffPoints
from ..pyvc import solve, verify


def _lemmas(rep):
    fn = "lemma::C10"
    s, s2, t0, t1, p0, p1, pig, pc, p, u = (Real(x) for x in ("s", "s2", "t0", "t1", "p0", "p1", "pig", "pc", "p", "u"))
    gt = lambda a, b: If(a > b, RealVal(1), RealVal(0))
    mix = lambda x: p0 * gt(x, t0) + p1 * gt(x, t1)
    wf = [p0 >= 0, p1 >= 0, p0 + p1 == 1, pig >= 0, pig <= 1, pc >= 0, pc <= 1]
    jobs = [("pmf.monotone_in_score_without_flip", wf + [s <= s2], And(mix(s) <= mix(s2), pig * pc + (1 - pig) * mix(s) <= pig * pc + (1 - pig) * mix(s2))),
            # predict draws u ~ U[0,1) and returns 1[p >= u]: the set {u in [0,1) : p >= u} is [0, min(p,1)) U {p if p<1}: measure p for p in [0,1]
            ("bernoulli.deterministic_at_one", [p == 1, u >= 0, u < 1], p >= u),
            ("bernoulli.deterministic_at_zero_except_null_event", [p == 0, u > 0, u < 1], z3.Not(p >= u)),
            ("bernoulli.event_is_an_initial_interval", [p >= 0, p <= 1, u >= 0, u < 1], (p >= u) == (u <= p))]
    for name, hyps, goal in jobs:
        r = solve.prove(name, hyps, goal)
        rep.add_obligation("lemma." + name, fn, "discharged" if r.status == "unsat" else "undecided", r.backend, r.secs, "P", detail=None if r.status == "unsat" else r.status)


def items(rep):
    rep.trust("ThresholdOperation.__call__ on a vector is element-wise and depends only on the element (contract proved in this check)",
              "boolean-mask assignment a[m] = b[m] is element-wise (assumed, ndmodel.py)", "numpy RandomState.rand draws are uniform on [0,1) (A2)")
    _lemmas(rep)
    return [(PmfPredict(), [("operations_swapped", verify.replace_expr("interpolation.operation1(base_predictions_vector)", "interpolation.operation0(base_predictions_vector)")),
                            ("p_ignore_complement_dropped", verify.replace_expr("(1 - interpolation.p_ignore) * interpolated_predictions", "interpolation.p_ignore * interpolated_predictions")),
                            ("negative_column_not_complement", verify.replace_expr("1.0 - positive_probs", "positive_probs")),
                            ("scored_by_the_constructor_argument", verify.replace_expr("self.estimator_", "self.estimator", 0))]),
            # 'without flip, P(1) never decreases with the score': the flip setting reaches the curve construction, which then emits '>' rules only
            (EqualizedOddsCurves(), [("flip_setting_not_passed_on", verify.replace_expr("_tradeoff_curve(group, sensitive_feature_value, flip=self.flip)", "_tradeoff_curve(group, sensitive_feature_value, flip=True)"))]),
            # 'depends only on the row's score': the fitted rule scores query rows with the predict method the thresholds were learned on (both fit paths)
            (EqualizedOddsEntries(), [("fitted_rule_uses_the_default_predict_method", verify.replace_expr("predict_method=self._predict_method", "predict_method='auto'", 0))]),
            (SimpleConstraints(), [("fitted_rule_uses_the_default_predict_method", verify.replace_expr("predict_method=self._predict_method", "predict_method='auto'", 0))]),
            (TradeoffPoints("false_positive_rate", "true_positive_rate", False), [("flipped_rules_although_flip_is_off", verify.replace_expr("flip", "True", 0))]),
            (ThresholderPredict(), [("seed_zero_treated_as_no_seed", verify.replace_expr("check_random_state(random_state)", "check_random_state(random_state if random_state else None)")),
                                    ("strict_comparison_with_the_draw", verify.flip_strictness(0))]),
            (EGPredict(True), [("strict_comparison_with_the_draw", verify.flip_strictness(0))]),
            (EGPmf(True), [("zero_test_by_position", verify.replace_expr("self.weights_[t]", "self.weights_.iloc[t]")),
                           ("mixture_paired_by_position", verify.replace_expr("pred[self.weights_.index]", "pred"))]),
            (EGPmf(False), []),
            (EGPredict(False), [("weights_paired_by_position", verify.replace_expr("self.weights_[pred.columns]", "self.weights_")),
                                ("every_row_drawn_from_row_zero", verify.replace_expr("pred.iloc[i, :]", "pred.iloc[0, :]")),
                                ("global_generator_instead_of_the_seeded_one", verify.replace_expr("random_state.choice", "np.random.choice"))])]
