"""C03: caller contracts of the six named fairness metrics (wiring against the MetricFrame / aggregate / base-rate contracts)."""
from ..contracts.fairness_metrics import SPEC, GeneratedMetricsTable, NamedMetric
from ..pyvc import verify


def items(rep):
    out = []
    for f, (_, _, worst) in SPEC.items():
        if worst is None:
            can = [("weights_dropped", verify.replace_expr("{'sample_weight': sample_weight}", "{'sample_weight': None}"))] if f == "demographic_parity_ratio" else []
            if f == "equal_opportunity_difference":
                can = [("method_not_forwarded", verify.replace_expr("tpr.difference(method=method)", "tpr.difference()"))]
            out.append((NamedMetric(f), can))
        else:
            for agg in ("worst_case", "mean", "median"):
                can = []
                if f == "equalized_odds_ratio" and agg == "worst_case":
                    can = [("worst_case_ratio_uses_max", verify.replace_expr("min(eo.ratio(method=method))", "max(eo.ratio(method=method))"))]
                out.append((NamedMetric(f, agg), can))
    from ..contracts.base_metrics import GetLabels, Rate
    from ..contracts.shapes import ScalarShape
    out += [(Rate(f), []) for f in Rate.COMPONENT]
    out += [(GetLabels(L, pos, "int"), []) for L in (1, 2, "many") for pos in (False, True)]
    out += [(ScalarShape("selection_rate", w), []) for w in (False, True)]
    out.append((GeneratedMetricsTable(), [("names_without_the_transform", verify.replace_expr("'{0}_{1}'.format(base_metric.__name__, variant)", "'{0}'.format(base_metric.__name__)"))]))
    return out
