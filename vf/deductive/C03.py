"""C03 deductive part: _DerivedMetric.__call__ keyword routing and dispatch (all four transforms + an unknown one, 0-3 extra keywords);
the named fairness metrics' wiring in vf/deductive/C03_more.py when present."""
from ..contracts.metricframe import DerivedCall
from ..pyvc import verify


def run_deductive(rep):
    rep.assume("A3", "A4", "A7")
    rep.trust("callee contracts MetricFrame(...) / difference / ratio / group_min / group_max (C01, C02)", "functools.partial binds keywords", "pyvc symbolic executor")
    items = []
    for t in ("difference", "ratio", "group_min", "group_max", "bogus"):
        for ex in ([], ["sample_weight"], ["method", "sample_weight", "beta"]):
            can = []
            if t == "ratio" and len(ex) == 3:
                can = [("ratio_dispatches_to_difference", verify.replace_expr("all_metrics.ratio(**transform_parameters)", "all_metrics.difference(**transform_parameters)")),
                       ("sample_weight_bound_as_plain_parameter", verify.replace_expr("k in self._sample_param_names", "False"))]
            items.append((DerivedCall(t, ex), can))
    try:
        from . import C03_more
        items += C03_more.items(rep)
    except ImportError:
        pass
    # the weights of the named metrics travel through MetricFrame's sample_params plumbing: own entry per metric, values copied label-free, caller's mapping untouched
    from ..contracts.metricframe import AnnotatedCall, ConstructAMF, GetAnnotatedFunctions
    items += [(ConstructAMF([("sample_weight", False)]), [("weights_stored_with_the_callers_index", verify.replace_expr("np.asarray(param_value)", "param_value"))]),
              (AnnotatedCall({"sample_weight": "m_sample_weight"}), []), (GetAnnotatedFunctions("callable"), []), (GetAnnotatedFunctions("dict"), [])]
    verify.verify_many(rep, items)
    from ..static import provenance
    provenance.report(rep, only=["_metric_frame.py"])
