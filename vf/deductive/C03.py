"""C03 deductive part: _DerivedMetric.__call__ keyword routing and dispatch (all four transforms + an unknown one, 0-3 extra keywords);
the named fairness metrics' wiring in vf/deductive/C03_more.py when present."""
from ..contracts.metricframe import DerivedCall
from ..pyvc import verify


def run_deductive(rep):
    rep.assume("A3", "A4", "A7")
    rep.trust("callee contracts MetricFrame(...) / difference / ratio / group_min / group_max (C01, C02)", "functools.partial binds keywords", "pyvc symbolic executor")
    items = []
    for t in ("difference", "ratio", "group_min", "group_max", "bogus"):
        for ex in ([], ["sample_weight"], ["method", "sample_weight", "beta"]):
            can = []
            if t == "ratio" and len(ex) == 3:
                can = [("ratio_dispatches_to_difference", verify.replace_expr("all_metrics.ratio(**transform_parameters)", "all_metrics.difference(**transform_parameters)")),
                       ("sample_weight_bound_as_plain_parameter", verify.replace_expr("k in self._sample_param_names", "False"))]
            items.append((DerivedCall(t, ex), can))
    try:
        from . import C03_more
        items += C03_more.items(rep)
    except ImportError:
        pass
    verify.verify_many(rep, items)
