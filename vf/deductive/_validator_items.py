"""items for the contract of _validate_and_reformat_input, shared by C12 / C13 / C20"""
import ast

from ..contracts.validation import ValidateAndReformat
from ..pyvc import verify


def _drop_call(callee_src):
    def t(fn):
        for n in ast.walk(fn):
            for field in ("body", "orelse"):
                body = getattr(n, field, None)
                if isinstance(body, list):
                    for i, s in enumerate(body):
                        if isinstance(s, ast.Expr) and ast.unparse(s.value).startswith(callee_src):
                            body[i] = ast.Pass()
                            return
        raise ValueError("call not found")
    return t


CANARIES = [
    ("x_y_row_check_weakened", verify.replace_expr("y.shape[0] != result_X.shape[0]", "y.shape[0] > result_X.shape[0]")),
    ("sensitive_length_check_dropped", _drop_call("check_consistent_length(X, sensitive_features)")),
    ("merge_only_from_three_columns", verify.replace_expr("sensitive_features.shape[1] > 1", "sensitive_features.shape[1] > 2")),
    ("sensitive_features_keep_caller_labels", verify.replace_expr("check_array(sensitive_features, ensure_2d=False, dtype=None)", "sensitive_features")),
    ("binary_label_check_disabled", verify.replace_expr("enforce_binary_labels and (not set(np.unique(y)).issubset(set([0, 1])))", "False")),
    ("missing_sensitive_feature_accepted", verify.replace_expr("expect_sensitive_features", "False", 0)),
]


def items(y_ranks=(None, 1, 2, 3), sf_ranks=(None, 1, 2), cf_ranks=(None, 1, 2), canaries=True):
    out = []
    for y in y_ranks:
        for sf in sf_ranks:
            for cf in cf_ranks:
                can = CANARIES[:5] if (canaries and y == 1 and sf == 2 and cf is None) else \
                    ([CANARIES[5]] if (canaries and y == 1 and sf is None and cf is None) else [])
                out.append((ValidateAndReformat(y, sf, cf), can))
    return out
