"""C13 deductive part: the merged multi-column key is collision free, and fit/predict/moments use the same key function.

P: (1) the per-row pipeline of _merge_columns is extracted from the real source by the symbolic executor (escape-then-join with the module's
       constants) and instantiates the Lean 4 theorems of lemmas/Merge.lean: equal merged keys => equal string tuples, for strings of any
       length over any alphabet (injectivity; the converse is functionality);
   (2) _validate_and_reformat_input merges iff there is more than one column (contract of the validator, all rank patterns);
   (3) call-site conformance: every moment's load_data, ThresholdOptimizer.fit and InterpolatedThresholder._pmf_predict obtain the group
       vector from that validator applied to the caller's sensitive (control) features and never read the raw argument otherwise.
"""
from ..contracts import merge as M
from ..pyvc import verify
from ..static import dominance
from ._validator_items import items as _items


def run_deductive(rep):
    rep.assume("A2", "A3", "A4", "A6")
    rep.trust("Python str.replace for a one-character pattern equals Merge.repl (conformance-tested on random strings in this run)",
              "ndarray.astype(str) yields the str() of each cell (A6: no fixed-width truncation)", "Lean 4 kernel (axioms: propext, Quot.sound only)",
              "numpy/pandas shape contracts of vf/contracts/ndmodel.py", "z3", "pyvc symbolic executor")
    c = M.MergeColumns(True)
    res = verify.verify_many(rep, [(c, []), (M.MergeColumns(False), [])] + _items(y_ranks=(1,), sf_ranks=(1, 2), cf_ranks=(None, 2), canaries=False))
    fn = f"{c.source}::{c.function}"
    if res[0]["status"] == "ok" and c.extracted:
        ok, secs, out = M.run_lean(c.extracted)
        if ok:
            rep.add_obligation("_merge_columns.merged_key_injective(lean instance of the extracted pipeline)", fn, "discharged", "lean4", secs, "P")
        else:
            found = M.native_collision_search(3 if rep.tier == "thorough" else 2)
            if found:
                rep.add_obligation("_merge_columns.merged_key_injective(lean instance of the extracted pipeline)", fn, "failed", "lean4", secs, "P", detail=out[-300:])
                rep.violation("C13:_merge_columns:collision", f"two different tuples {found['row_a']} and {found['row_b']} get the same merged key {found['merged_key']!r}",
                              replay={"obligation": "_merge_columns.merged_key_injective", "lean_output": out[-800:], "native": found,
                                      "extracted_pipeline": c.extracted}, obligation="_merge_columns.merged_key_injective")
            else:
                rep.add_obligation("_merge_columns.merged_key_injective(lean instance of the extracted pipeline)", fn, "undecided", "lean4", secs, "P",
                                   detail="Lean instance not accepted and no collision found in the bounded native search: " + out[-300:])
        okc, wit = M.replace_conformance(2000 if rep.tier == "thorough" else 300, rep.seed)
        rep.note(f"str.replace conformance with Merge.repl on random strings: {'ok' if okc else 'MISMATCH ' + repr(wit)}")
        if not okc:
            rep.error(f"dependency contract of str.replace violated by the installed Python: {wit!r}")
        canary = dict(c.extracted, ops=[c.extracted["ops"][1], c.extracted["ops"][0]])     # reordered replaces: must NOT be provable
        okm, _, _ = M.run_lean(canary)
        rep.add_canary("_merge_columns", "lean_instance_with_reordered_replaces", not okm, by="lean rejects the instance" if not okm else None)
    else:
        # the pipeline could not be extracted (it is no longer "escape each component, then join"): bounded native search for a collision on the real function
        found = M.native_collision_search(3 if rep.tier == "thorough" else 2)
        if found:
            rep.add_obligation("_merge_columns.merged_key_injective(bounded native search, pipeline not extractable)", fn, "failed", "native", 0.0, "P")
            what = f"two different tuples {found['row_a']} and {found['row_b']} get the same merged key {found['merged_key']!r}" if "kind" not in found else \
                f"the merged key of {found['row_a']} is {found['merged_key']!r} in one table and {found['key_in_another_table']!r} in another ({found['kind']})"
            rep.violation("C13:_merge_columns:collision" if "kind" not in found else "C13:_merge_columns:key-not-row-local", what,
                          replay={"obligation": "_merge_columns.merged_key_injective", "native": found}, obligation="_merge_columns.merged_key_injective")
    for ep in dominance.ENTRY_POINTS:
        dominance.report(rep, *ep)
