"""C06 deductive part.

P: _combine_event_and_control (null event stays null: rows outside the conditioned label class belong to no event; event named within its
   stratum), UtilityParity.__init__ for all None-patterns of the bounds (eps/ratio as documented; bound() slack), ErrorRate.__init__.
"""
import ast

from ..contracts.moments_basic import CombineEventAndControl, UtilityParityInit
from ..contracts.small import ErrorRateInit
from ..pyvc import verify


def run_deductive(rep):
    rep.assume("A1", "A2", "A3", "A4")
    rep.trust("pandas.notnull(x) is False exactly for None/NaN (assumed)", "str.format of a float NaN is 'nan'", "z3 (string theory)", "pyvc symbolic executor")
    items = [(CombineEventAndControl(), [("drop_event_guard", verify.replace_expr("pd.notnull(control) and pd.notnull(event)", "pd.notnull(control)")),
                                        ("swap_format_arguments", verify.replace_expr("_CTRL_EVENT_FORMAT.format(control, event)", "_CTRL_EVENT_FORMAT.format(event, control)"))])]
    for a in (False, True):
        for b in (False, True):
            can = [("ratio_upper_bound_strict", verify.flip_strictness(0, lambda c: isinstance(c.ops[0], (ast.Lt, ast.LtE))))] if (b and not a) else []
            items.append((UtilityParityInit(a, b), can))
    for k in ("none", "ok_keys", "missing_key", "extra_key", "empty", "not_a_dict"):
        items.append((ErrorRateInit(k), []))
    try:
        from . import C06_more
        items += C06_more.items(rep)
    except ImportError:
        pass
    verify.verify_many(rep, items)
    from ..static import provenance
    provenance.report(rep, only=("reductions/", "utils/"))
    from ..static import frames
    frames.report(rep, table=frames.MOMENTS, conditions=("F5",))      # gamma / signed_weights / bound / project_lambda are pure queries of the loaded data (no caches)
