"""C04 deductive part: the threshold-rule pipeline of ThresholdOptimizer.

P: _calculate_tradeoff_points (every emitted row is a threshold rule with exactly its metrics; both constant rules present; raises exactly
   for a group lacking a label), _filter_points_to_get_convex_hull (subsequence, coverage, strict concavity, monotone abscissae),
   ThresholdOperation.__call__/__init__; further targets are added by vf/deductive/C04_more.py when present.
"""
import ast

from ..contracts.hull import Hull
from ..contracts.small import ThresholdOpCall, ThresholdOpInit
from ..contracts.tradeoff import GetCounts, GetScoresLabelsCounts, TradeoffPoints, X_METRICS, Y_METRICS
from ..pyvc import verify


def tradeoff_items(tier):
    if tier == "thorough":
        combos = [(x, y, f) for x in X_METRICS for y in Y_METRICS for f in (False, True)]
    else:   # quick: every x metric and every y metric at least once with each flip setting, plus the ROC pair used by equalized odds
        combos = [("selection_rate", "accuracy_score", False), ("false_positive_rate", "true_positive_rate", True),
                  ("true_positive_rate", "balanced_accuracy_score", True), ("true_negative_rate", "selection_rate", False),
                  ("false_negative_rate", "true_negative_rate", True), ("false_positive_rate", "true_positive_rate", False)]
    items = []
    for n_, (x, y, f) in enumerate(combos):
        can = []
        if n_ == 1:
            can = [("count_wrong_class", verify.replace_expr("labels[i]", "1 - labels[i]")),
                   ("midpoint_becomes_lower_score", verify.replace_expr("(threshold + scores[i]) / 2", "scores[i]")),
                   ("first_threshold_minus_inf", verify.replace_expr("np.inf", "-np.inf", 1))]
        items.append((TradeoffPoints(x, y, f), can))
    return items


def hull_item():
    return (Hull(), [("drop_when_above", lambda fn: setattr(verify.nth(fn, ast.Compare, 0, lambda c: "r1.y" in ast.unparse(c)), "ops", [ast.GtE()])),
                     ("keep_collinear", verify.flip_strictness(0, lambda c: "r1.y" in ast.unparse(c)))])


def run_deductive(rep):
    rep.assume("A1", "A2", "A3", "A4", "A5")
    rep.trust("callee contract of _get_scores_labels_and_counts: scores finite and non-increasing, labels in {0,1} (pandas sort_values/list)",
              "pandas DataFrame(...).sort_values(by=['x','y']) sorts rows lexicographically and keeps row content (assumed)",
              "DataFrame.itertuples() yields the rows in order; pd.DataFrame(list of records) keeps them in order (assumed)",
              "natural-number induction schema for the ghost counting function cnt", "z3", "pyvc symbolic executor")
    items = tradeoff_items(rep.tier) + [hull_item(),
            (ThresholdOpCall(), [("swap_operator", verify.reverse_compare(0, lambda c: "y_hat" in ast.unparse(c)))]),
            (ThresholdOpInit(), []),
            (GetScoresLabelsCounts(), [("sorted_ascending", verify.replace_const(False, True, 0)), ("labels_from_the_unsorted_frame", verify.replace_expr("data_sorted[LABEL_KEY]", "data[LABEL_KEY]"))]),
            (GetCounts(), [("negatives_miscounted", verify.replace_expr("n - n_positive", "n"))])]
    try:
        from . import C04_more
        items += C04_more.items(rep)
    except ImportError:
        pass
    verify.verify_many(rep, items)
    from ..static import provenance
    provenance.report(rep, only=("postprocessing/",))      # rows of scores / labels / groups are paired by position
    from ..static import frames
    frames.report(rep, classes=["ThresholdOptimizer"], conditions=("F1", "F3", "F4", "F5", "F6"))      # every fit rebuilds its state (F3: no attribute of an earlier fit is read before it is written, incl. hasattr guards), predict keeps no private state
