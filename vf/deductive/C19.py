"""C19 deductive part: frame conditions F1-F5 of fit / predict for every estimator class (effect analysis over the real ASTs)."""
from ..contracts.adv_gradflow import Evaluate
from ..contracts.eg_predict import Predict as EGPredict
from ..contracts.eg_predict import ThresholderPredict
from ..pyvc import verify
from ..static import frames


def run_deductive(rep):
    rep.assume("A3", "A7")
    rep.trust("effect analysis vf/static/frames.py (conservative: branch writes are only possible writes)",
              "library calls (sklearn clone/check_is_fitted/validate_data, estimator.fit on a *cloned* estimator) do not assign attributes of the fairlearn estimator other than n_features_in_/feature_names_in_")
    frames.report(rep)
    # prediction of the adversarial estimators goes through BackendEngine.evaluate: one forward pass in evaluation mode (no Dropout noise, no BatchNorm update)
    rep.trust("torch/keras module contract: a forward pass in evaluation mode is a pure function of the input and the parameters; in training mode Dropout draws "
              "random masks and BatchNorm updates its running statistics (assumed)")
    # repeating predict(random_state=s) repeats the answer: every random draw comes from the generator derived from the caller's random_state
    verify.verify_many(rep, [(ThresholderPredict(), []), (EGPredict(True), []), (EGPredict(False), [("global_generator_instead_of_the_seeded_one", verify.replace_expr("random_state.choice", "np.random.choice"))]),
                             (Evaluate("torch", False), [("evaluation_mode_not_entered", verify.replace_expr("self.predictor_model.eval()", "None"))]),
                             (Evaluate("torch", True), []),
                             (Evaluate("tf"), [("training_flag_dropped", verify.replace_expr("self.predictor_model(X, training=False)", "self.predictor_model(X)"))])])
