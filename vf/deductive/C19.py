"""C19 deductive part: frame conditions F1-F5 of fit / predict for every estimator class (effect analysis over the real ASTs)."""
from ..static import frames


def run_deductive(rep):
    rep.assume("A3", "A7")
    rep.trust("effect analysis vf/static/frames.py (conservative: branch writes are only possible writes)",
              "library calls (sklearn clone/check_is_fitted/validate_data, estimator.fit on a *cloned* estimator) do not assign attributes of the fairlearn estimator other than n_features_in_/feature_names_in_")
    frames.report(rep)
