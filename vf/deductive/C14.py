"""C14 deductive part.

P: _get_labels_for_confusion_matrix (all distinct-value counts x pos_label given/None x int/str encodings) and the wiring of the four
   rate functions against the assumed contract of sklearn's confusion_matrix; selection_rate / mean_prediction scalar shape (shape algebra).
"""
import ast

from ..contracts.base_metrics import GetLabels, Rate
from ..pyvc import verify


def run_deductive(rep):
    rep.assume("A1", "A2", "A3", "A4", "A5")
    rep.trust("sklearn.metrics.confusion_matrix(labels=[neg,pos], normalize='true', sample_weight=w).ravel() == (tnr, fpr, fnr, tpr) of the weighted rows, "
              "all-zero rows give 0 (assumed; exercised by the bounded stand-in)",
              "numpy.unique returns the strictly increasing distinct values (assumed)", "z3", "pyvc symbolic executor")
    items = []
    for sort in ("int", "str"):
        for L in (1, 2, "many"):
            for pos in (False, True):
                can = []
                if L == 2 and pos and sort == "int":
                    can = [("swap_reversal_test", verify.replace_expr("unique_labels[0]", "unique_labels[1]", 1)),
                           ("accept_foreign_pos_label", lambda fn: _replace_raise_with_pass(fn, "_NEED_POS_LABEL_IN_Y_VALS"))]
                if L == 1 and pos and sort == "int":
                    can = [("single_value_wrong_side", verify.flip_strictness(0, lambda c: ast.unparse(c) == "unique_labels[0] == pos_label"))]
                items.append((GetLabels(L, pos, sort), can))
    for fname in Rate.COMPONENT:
        items.append((Rate(fname), [("returns_other_cell", _return_other(fname))]))
    try:
        from ..contracts.shapes import ScalarShape
    except ImportError:
        verify.verify_many(rep, items)
        return
    for fname in ("selection_rate", "mean_prediction"):
        for weighted in (False, True):
            items.append((ScalarShape(fname, weighted), []))
    verify.verify_many(rep, items)


def _replace_raise_with_pass(fn, msg_name):
    for n in ast.walk(fn):
        for field in ("body", "orelse"):
            body = getattr(n, field, None)
            if isinstance(body, list):
                for i, s in enumerate(body):
                    if isinstance(s, ast.Raise) and msg_name in ast.unparse(s):
                        body[i] = ast.Pass()
                        return
    raise ValueError("raise not found")


def _return_other(fname):
    other = {"tpr": "fnr", "fnr": "tpr", "fpr": "tnr", "tnr": "fpr"}

    def t(fn):
        r = [n for n in ast.walk(fn) if isinstance(n, ast.Return)][0]
        r.value = ast.Name(id=other[r.value.id], ctx=ast.Load())
    return t
