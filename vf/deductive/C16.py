"""C16 deductive part (label S: all real values, bounded tensor shapes): the projected-gradient update block of both engines,
executed symbolically from the real source on r x c tensors of symbolic reals (see vf/contracts/adv_update.py)."""
from ..contracts.adv_gradflow import Shuffle, TorchGradFlow
from ..contracts.adv_update import UpdateBlock
from ..pyvc import verify


def run_deductive(rep):
    rep.assume("A1", "A2", "A3", "A4")
    rep.trust("torch/tensorflow operation contracts (norm = Frobenius norm, sum/reduce_sum, element-wise * and multiply, inner = row Gram matrix, "
              "finfo.tiny >= 0); autograd and optimiser steps are outside the VC", "the TensorFlow engine cannot be executed in this sandbox: its obligations are static only",
              "z3 (nonlinear real arithmetic)", "pyvc symbolic executor")
    shapes = [(1, 1), (1, 3), (2, 1), (2, 2), (3, 2)] + ([(2, 3), (3, 3), (4, 2)] if rep.tier == "thorough" else [])
    items = []
    for eng in ("torch", "tf"):
        for shp in shapes:
            for tz in (True, False):
                can = []
                if eng == "torch" and shp == (2, 2) and tz:
                    can = [("projection_by_sum_of_inner", verify.replace_expr("torch.sum(unit_dW_LA * dW_LP[i])", "torch.sum(torch.inner(unit_dW_LA, dW_LP[i]))")),
                           ("alpha_term_added_instead_of_subtracted", verify.replace_expr("dW_LP[i] - proj * unit_dW_LA - self.base.alpha * dW_LA[i]", "dW_LP[i] - proj * unit_dW_LA + self.base.alpha * dW_LA[i]"))]
                items.append((UpdateBlock(eng, [shp], tz), can))
        items.append((UpdateBlock(eng, [(2, 2), (1, 3)], True), []))
    verify.verify_many(rep, items, label="S", timeout_ms=90000)

    def both(old):
        def t(fn):
            verify.replace_expr(old, "None")(fn)
            verify.replace_expr(old, "None")(fn)
        return t
    flow = [(TorchGradFlow(False), [("adversary_buffers_never_cleared", both("self.adversary_optimizer.zero_grad()")),
                                    ("predictor_buffers_not_cleared_between_the_two_backward_passes", verify.replace_expr("self.predictor_optimizer.zero_grad()", "None", 1)),
                                    ("adversary_does_not_see_the_predictor_output", verify.replace_expr("self.adversary_model(Y_hat)", "self.adversary_model(Y)"))]),
            (TorchGradFlow(True), [("y_not_passed_for_equalized_odds", verify.replace_expr("torch.cat((Y_hat, Y), dim=1)", "Y_hat"))])]
    rep.trust("torch autograd bookkeeping: .grad buffers accumulate, zero_grad empties them, backward adds the gradient of that loss (assumed); tensors opaque in the gradient-flow contract")
    flow += [(Shuffle("torch"), [("sensitive_rows_not_permuted", verify.replace_expr("A[idx].view(A.size())", "A.view(A.size())"))]), (Shuffle("base"), [])]
    verify.verify_many(rep, flow, label="P")
