"""C20: 'normal return => valid' for the shared validator _validate_and_reformat_input (all rank patterns of y / sensitive / control features)."""
from ._validator_items import items as _items


def items(rep):
    rep.trust("numpy/pandas/sklearn shape contracts of vf/contracts/ndmodel.py (assumed; exercised by the bounded stand-ins)")
    return _items()
