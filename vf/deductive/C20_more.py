"""C20: 'normal return => valid' for the shared validator _validate_and_reformat_input (all rank patterns of y / sensitive / control features)."""
from ._validator_items import items as _items


def items(rep):
    from ..contracts.bootstrap import BootstrapArguments
    from ..contracts.metricframe import DuplicateFeatureNames
    from ..pyvc import verify
    rep.trust("numpy/pandas/sklearn shape contracts of vf/contracts/ndmodel.py (assumed; exercised by the bounded stand-ins)")
    out = _items()
    for (a, b) in ((1, 0), (2, 0), (1, 1), (3, 2)):
        out.append((DuplicateFeatureNames(a, b), [("control_names_not_checked", verify.replace_expr("namelist + self._cf_names", "namelist"))] if (a, b) == (1, 1) else []))
    for nk in ("none", "int", "float"):
        for ck in ("none", "one", "int_entry"):
            out.append((BootstrapArguments(nk, ck), []))
    return out
