"""C12 deductive part: index provenance.

P: _validate_and_reformat_input returns pandas objects with a *default* index built from label-free arrays for every rank pattern (so no
   caller label can reach an aligning pandas operation downstream of the validator); further entry points in vf/deductive/C12_more.py.
"""
from ..pyvc import verify
from ._validator_items import items as _items


def run_deductive(rep):
    rep.assume("A2", "A3", "A4")
    rep.trust("numpy/pandas/sklearn shape and provenance contracts of vf/contracts/ndmodel.py (np.asarray/check_array/.values erase labels; "
              "pd.Series(label-free) has a RangeIndex)", "z3", "pyvc symbolic executor")
    items = _items(y_ranks=(1, 2), sf_ranks=(1, 2), cf_ranks=(None, 1, 2))
    try:
        from . import C12_more
        items += C12_more.items(rep)
    except ImportError:
        pass
    from ..contracts.metricframe import ProcessFeaturesDict
    items.append((ProcessFeaturesDict(), [("dict_entries_taken_in_sorted_order", verify.replace_expr("features.items()", "sorted(features.items())"))]))
    verify.verify_many(rep, items)
    try:
        from . import C12_static
        C12_static.run(rep)
    except ImportError:
        pass
