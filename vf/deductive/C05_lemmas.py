"""C05 lemmas over the hull contract: hull.support and jensen.mix as ghost lemma functions (Dafny style: the loop carries the induction).

hull.support: in a strictly concave chain S[0..m) whose abscissae strictly increase from index 1 on, a point p that lies under the edge
  (S[j0], S[j0+1]) spanning it lies under the extended line of every edge to the left (walk cur = j0 .. t) and to the right.
  ghost def support_left(j0, t):  cur = j0;  while cur > t: cur -= 1     invariant  t <= cur <= j0, Below(S[cur], S[cur+1], p), X(p) >= X(S[cur])
jensen.mix: if every mixture component lies under the supporting line of the edge spanning x, the mixture's mean ordinate is at most the
  interpolated value: accumulate (W, sum w*x, sum w*y) with invariant  Sy <= ya*W + s*(Sx - xa*W); at total weight 1 this is y_mix <= ya + s*(x_mix - xa).
Together with hull coverage (proved from the real source) this gives: the stored two-vertex mixture maximises E[y] among all mixtures of the
group's threshold rules with the same E[x] (property C05).  The two step lemmas L_left/L_right are proved with Below revealed (QF_NRA).
"""
from z3 import (And, BoolSort, ForAll, Function, Implies, IntSort, Ints, MultiPattern, Not, RealSort, Reals)

from ._lemma import prove_all


def run(rep):
    fn = "lemma::hull.support/jensen.mix"
    X, Y = Function("X", IntSort(), RealSort()), Function("Y", IntSort(), RealSort())
    B = Function("Below", IntSort(), IntSort(), IntSort(), BoolSort())
    S = Function("S", IntSort(), IntSort())
    m, p, j0, t, cur = Ints("m p j0 t cur")
    j, j2, j3, a, b, c, q = Ints("j j2 j3 a b c q")
    Bd = lambda a, b, p: (X(b) - X(a)) * (Y(p) - Y(a)) <= (Y(b) - Y(a)) * (X(p) - X(a))
    L = {"L_left": (lambda Bp: Implies(And(X(a) <= X(b), X(b) < X(c), Not(Bp(a, c, b)), X(q) >= X(b), Bp(b, c, q)), Bp(a, b, q)), lambda: [MultiPattern(B(b, c, q), B(a, c, b))]),
         "L_right": (lambda Bp: Implies(And(X(a) < X(b), X(b) <= X(c), Not(Bp(a, c, b)), X(q) <= X(b), Bp(a, b, q)), Bp(b, c, q)), lambda: [MultiPattern(B(a, b, q), B(a, c, b))])}
    jobs = [(f"hull.support.{nm}(revealed)", [], f(Bd)) for nm, (f, _) in L.items()]
    axioms = [ForAll([a, b, c, q], f(B), patterns=pat()) for f, pat in L.values()]
    chain = [m >= 2,
             ForAll([j, j2, j3], Implies(And(0 <= j, j2 == j + 1, j3 == j + 2, j3 < m), Not(B(S(j), S(j3), S(j2)))), patterns=[MultiPattern(S(j), S(j2), S(j3))]),
             ForAll([j, j2], Implies(And(1 <= j, j2 == j + 1, j2 < m), X(S(j)) < X(S(j2))), patterns=[MultiPattern(S(j), S(j2))]),
             X(S(0)) <= X(S(1))]
    base = axioms + chain
    inv = lambda cu: And(t <= cu, cu <= j0, B(S(cu), S(cu + 1), p), X(p) >= X(S(cu)))
    pre = [0 <= t, t < j0, j0 + 1 < m, X(S(j0)) <= X(p), B(S(j0), S(j0 + 1), p)]
    jobs += [("hull.support.left_walk.invariant_on_entry", base + pre, inv(j0)),
             ("hull.support.left_walk.invariant_preserved", base + pre + [inv(cur), cur > t, S(cur - 1) == S(cur - 1), S(cur + 1) == S(cur + 1)], inv(cur - 1)),
             ("hull.support.left_walk.postcondition", base + pre + [inv(cur), Not(cur > t)], B(S(t), S(t + 1), p))]
    invr = lambda cu: And(j0 <= cu, cu <= t, B(S(cu), S(cu + 1), p), X(p) <= X(S(cu + 1)))
    prer = [1 <= j0, j0 < t, t + 1 < m, X(p) <= X(S(j0 + 1)), B(S(j0), S(j0 + 1), p)]
    jobs += [("hull.support.right_walk.invariant_on_entry", base + prer, invr(j0)),
             ("hull.support.right_walk.invariant_preserved", base + prer + [invr(cur), cur < t, S(cur + 2) == S(cur + 2)], invr(cur + 1)),
             ("hull.support.right_walk.postcondition", base + prer + [invr(cur), Not(cur < t)], B(S(t), S(t + 1), p))]
    W, Sx, Sy, w, x, y, ya, xa, sl = Reals("W Sx Sy w x y ya xa sl")
    I = lambda W, Sx, Sy: Sy <= ya * W + sl * (Sx - xa * W)
    jobs += [("jensen.mix.invariant_on_entry", [], I(0, 0, 0)),
             ("jensen.mix.invariant_preserved", [w >= 0, y <= ya + sl * (x - xa), I(W, Sx, Sy)], I(W + w, Sx + w * x, Sy + w * y)),
             ("jensen.mix.postcondition_total_weight_one", [I(W, Sx, Sy), W == 1], Sy <= ya + sl * (Sx - xa)),
             # the two-vertex mixture stored by the code attains the bound
             ("jensen.mix.two_vertex_mixture_attains_it", [x == xa + (1 - w) * (Reals("xb")[0] - xa), w >= 0, w <= 1, Reals("xb")[0] > xa,
                                                          sl == (Reals("yb")[0] - ya) / (Reals("xb")[0] - xa)], w * ya + (1 - w) * Reals("yb")[0] == ya + sl * (x - xa))]
    prove_all(rep, fn, jobs)
    rep.trust("ghost lemma functions support_left/support_right/mix are verified as hand-written loop VCs (entry, preservation, exit)")
