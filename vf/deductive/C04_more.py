"""C04: interpolation of the hull at the grid (_get_interpolation_indices, _interpolate_curve), point-wise for a generic grid index."""
from ..contracts.interpolation import InterpolateCurve, InterpolationIndices
from ..pyvc import verify


def items(rep):
    rep.trust("np.searchsorted(a, v, side='right')[i] = #{j : a[j] <= v[i]} for non-decreasing a (assumed)",
              "integer-array indexing a[idx] and a[idx + 1], slice views a[1:], np.where and slice assignment are element-wise (assumed, ndmodel.py)")
    return [(InterpolationIndices(), [("searchsorted_left", verify.replace_const("right", "left")),
                                      ("no_decrement_on_equality", verify.replace_expr("indices[1:] - 1", "indices[1:]"))]),
            (InterpolateCurve(), [("p0_p1_swapped", verify.replace_expr("x_values[interpolation_indices + 1] - x_grid", "x_grid - x_values[interpolation_indices]")),
                                  ("right_vertex_operation_taken_from_left", verify.replace_expr("content_values[interpolation_indices + 1]", "content_values[interpolation_indices]"))])]
