"""C04: interpolation of the hull at the grid (_get_interpolation_indices, _interpolate_curve), point-wise for a generic grid index."""
from ..contracts.interpolation import InterpolateCurve, InterpolationIndices
from ..contracts.to_simple import SimpleConstraints
from ..contracts.to_eo import EqualizedOddsCurves, EqualizedOddsEntries, EqualizedOddsSelection, tradeoff_curve_defaults
from ..pyvc import verify


def items(rep):
    rep.trust("np.searchsorted(a, v, side='right')[i] = #{j : a[j] <= v[i]} for non-decreasing a (assumed)",
              "integer-array indexing a[idx] and a[idx + 1], slice views a[1:], np.where and slice assignment are element-wise (assumed, ndmodel.py)")
    try:
        d = tradeoff_curve_defaults()
        ok = d.get("x_metric") == "false_positive_rate" and d.get("y_metric") == "true_positive_rate"
        rep.add_obligation("_tradeoff_curve.default_metrics_are_false_and_true_positive_rate", "_tradeoff_curve", "discharged" if ok else "failed", "ast", 0.0, "P")
        if not ok:
            rep.violation("C04:_tradeoff_curve:default-metrics", f"equalized odds relies on _tradeoff_curve's default metrics being FPR/TPR, found {d}", obligation="_tradeoff_curve.default_metrics", no_input=True)
    except Exception as ex:
        rep.add_obligation("_tradeoff_curve.default_metrics_are_false_and_true_positive_rate", "_tradeoff_curve", "undecided", "ast", 0.0, "P", detail=repr(ex)[:200])
    return [(EqualizedOddsCurves(), [("flip_setting_not_passed_on", verify.replace_expr("_tradeoff_curve(group, sensitive_feature_value, flip=self.flip)", "_tradeoff_curve(group, sensitive_feature_value)")),
                                     ("curve_of_all_rows_for_every_group", verify.replace_expr("_tradeoff_curve(group, sensitive_feature_value, flip=self.flip)", "_tradeoff_curve(scores, sensitive_feature_value, flip=self.flip)"))]),
            (EqualizedOddsSelection("accuracy_score"), [("worst_grid_point_selected", verify.replace_expr("objective_values.idxmax()", "objective_values.idxmin()")),
                                                        ("highest_instead_of_lowest_hull", verify.replace_expr("np.amin(y_values, axis=1)", "np.amax(y_values, axis=1)")),
                                                        ("class_totals_swapped", verify.replace_expr("n_positive * self._y_min", "n_negative * self._y_min"))]),
            (EqualizedOddsSelection("balanced_accuracy_score"), [("y_best_from_another_index", verify.replace_expr("self._y_min[i_best_EO]", "self._y_min[0]"))]),
            (InterpolationIndices(), [("searchsorted_left", verify.replace_const("right", "left")),
                                      ("no_decrement_on_equality", verify.replace_expr("indices[1:] - 1", "indices[1:]"))]),
            (InterpolateCurve(), [("p0_p1_swapped", verify.replace_expr("x_values[interpolation_indices + 1] - x_grid", "x_grid - x_values[interpolation_indices]")),
                                  ("right_vertex_operation_taken_from_left", verify.replace_expr("content_values[interpolation_indices + 1]", "content_values[interpolation_indices]"))]),
            (SimpleConstraints(), simple_canaries()),
            (EqualizedOddsEntries(), [("p_ignore_relative_to_the_wrong_distance", verify.replace_expr("roc_result.y - roc_result.x", "roc_result.y")),
                                      ("constant_prediction_at_y_best", verify.replace_expr("self._x_best", "self._y_best", 1)),
                                      ("difference_from_the_groups_own_tpr_dropped", verify.replace_expr("roc_result.y - self._y_best", "self._y_best"))])]


def simple_canaries():
    return [("per_group_best_index", verify.replace_expr("self._tradeoff_curve[sensitive_feature_value].iloc[i_best]",
                                                        "self._tradeoff_curve[sensitive_feature_value].iloc[self._tradeoff_curve[sensitive_feature_value]['y'].idxmax()]")),
            ("worst_grid_point_selected", verify.replace_expr("overall_tradeoff_curve.idxmax()", "overall_tradeoff_curve.idxmin()")),
            ("operation1_from_operation0", verify.replace_expr("best_interpolation.operation1", "best_interpolation.operation0")),
            ("unweighted_sum_of_group_curves", verify.replace_expr("p_sensitive_feature_value * self._tradeoff_curve[sensitive_feature_value]['y']", "self._tradeoff_curve[sensitive_feature_value]['y']"))]
