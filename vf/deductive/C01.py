"""C01 deductive part: the plumbing that slices per-sample parameters with the rows of each group.

P: AnnotatedMetricFunction.__call__ (all arguments are columns of the same frame), MetricFrame._construct_annotated_metric_function
   (column key and mapping per parameter), MetricFrame._extract_result; lemma column_name_injectivity over the contract (z3 strings) -
   refuted, replayed natively: known finding C01:sample-param-column-name-collision.
"""
from ..contracts.metricframe import AnnotatedCall, ApplyFunctions, ApplyToDataframe, ConstructAMF, Create, ExtractResult, GetAnnotatedFunctions, ProcessFeaturesDict, column_name_injectivity
from ..pyvc import solve, verify
from ..pyvc.util import model_str


def _replay_collision(model):
    import numpy as np
    from fairlearn.metrics import MetricFrame
    n1, p1, n2, p2 = (model_str(model, k) for k in ("name1", "param1", "name2", "param2"))
    if not all(isinstance(x, str) and x.isidentifier() for x in (p1, p2)) or (n1, p1) == (n2, p2) or n1 == n2:
        n1, p1, n2, p2 = "a", "b_c", "a_b", "c"          # canonical witness of the same obligation when the model's strings are not identifiers
    f = lambda y_true, y_pred, **kw: float(np.sum(list(kw.values())[0]))
    y = [0, 1, 1]
    w1, w2 = [1.0, 1.0, 0.0], [10.0, 10.0, 0.0]
    mf = MetricFrame(metrics={n1: f, n2: f}, y_true=y, y_pred=y, sensitive_features=["g", "g", "g"], sample_params={n1: {p1: w1}, n2: {p2: w2}})
    got = {k: float(v) for k, v in mf.overall.items()}
    exp = {n1: 2.0, n2: 20.0}
    return got != exp, {"metrics": [n1, n2], "sample_params": {n1: {p1: w1}, n2: {p2: w2}}, "overall": got, "expected": exp}


def run_deductive(rep):
    rep.assume("A2", "A3", "A4", "A7")
    rep.trust("pandas df[col] selects the column; list()/np.asarray copy values positionally (assumed)", "z3 (string theory)", "pyvc symbolic executor",
              "pandas groupby(keys).apply(f) evaluates f on the rows of every observed key combination; reindex(product index) adds missing combinations as NaN (assumed; "
              "the obligations check that fairlearn calls them with the right keys, function and index)")
    items = [(AnnotatedCall({}), []), (AnnotatedCall({}, rank=2), [("sample_axis_squeezed_away", verify.replace_expr("np.asarray(list(df[arg_name]))", "np.squeeze(np.asarray(list(df[arg_name])))"))]),
             (AnnotatedCall({"sample_weight": "m_sample_weight"}, rank=2), []),
             (AnnotatedCall({"sample_weight": "m_sample_weight", "extra": "m_extra"}),
              [("keyword_read_from_its_own_name_instead_of_mapped_column", verify.replace_expr("df[data_arg_name]", "df[func_arg_name]")),
               ("second_positional_dropped", verify.replace_expr("self.postional_argument_names", "self.postional_argument_names[:1]"))]),
             (ConstructAMF([("sample_weight", False)]), []),
             (ConstructAMF([("sample_weight", False), ("skip", True), ("extra", False)]),
              [("column_named_by_parameter_only", verify.replace_expr("f'{name}_{param_name}'", "f'{param_name}'")),
               ("None_parameter_passed_through", verify.replace_expr("param_value is None", "False"))]),
             (ConstructAMF([]), []),
             (GetAnnotatedFunctions("callable"), []),
             (GetAnnotatedFunctions("dict"), [("callers_dictionary_emptied", verify.replace_expr("sample_params.get(name, {})", "sample_params.pop(name, {})")),
                                              ("every_metric_gets_all_sample_params", verify.replace_expr("sample_params.get(name, {})", "sample_params"))]),
             (GetAnnotatedFunctions("dict_no_params"), []), (ProcessFeaturesDict(), [])]
    for c in (True, False):
        for h in (True, False):
            items.append((ExtractResult(c, h), [("row_and_column_swapped", verify.replace_expr("underlying_result.iloc[0]", "underlying_result.iloc[:, 0]"))] if (c and not h) else []))
    for k in (0, 1, 3):
        items.append((ApplyToDataframe(k), []))
    for names in (None, [], ["s1"], ["c1", "s1"], ["c1", "s1", "s2"]):
        can = []
        if names == ["c1", "s1"]:
            can = [("missing_combinations_dropped", verify.replace_expr("temp.reindex(index=all_indices)", "temp")),
                   ("grouped_by_the_last_feature_only", verify.replace_expr("data.groupby(grouping_names)", "data.groupby(grouping_names[-1:])"))]
        items.append((ApplyFunctions(names), can))
    items.append((Create(True), [("sensitive_levels_before_control_levels", verify.replace_expr("(control_feature_names or []) + sensitive_feature_names", "sensitive_feature_names + (control_feature_names or [])"))]))
    items.append((Create(False), []))
    verify.verify_many(rep, items)
    from ..static import provenance
    provenance.report(rep, only=("metrics/",))
    fn = "fairlearn/metrics/_metric_frame.py::MetricFrame._construct_annotated_metric_function"
    for name, hyps, goal in column_name_injectivity():
        r = solve.prove(name, hyps, goal, 20000)
        full = "lemma.MetricFrame." + name
        if r.status == "unsat":
            rep.add_obligation(full, fn, "discharged", r.backend, r.secs, "P")
            continue
        confirmed, info = (False, None)
        if r.status == "sat":
            try:
                confirmed, info = _replay_collision(r.model)
            except Exception as ex:
                info = {"replay_error": repr(ex)}
        if confirmed:
            rep.add_obligation(full, fn, "failed", r.backend, r.secs, "P", detail="refuted (replayed natively)")
            rep.violation("C01:sample-param-column-name-collision", f"MetricFrame evaluates metric {info['metrics'][0]!r} with another metric's sample parameter: overall={info['overall']}, expected {info['expected']}",
                          replay={"obligation": full, "solver": r.backend, "model": r.model, "native": info}, obligation=full)
        else:
            rep.add_obligation(full, fn, "undecided", r.backend, r.secs, "P", detail=f"{r.status}; native replay: {info}"[:300])
