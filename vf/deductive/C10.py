"""C10 deductive part (so far): ThresholdOperation.__call__ is the threshold rule; pmf contracts in vf/deductive/C10_more.py when present."""
import ast

from ..contracts.small import ThresholdOpCall
from ..pyvc import verify


def run_deductive(rep):
    rep.assume("A1", "A3", "A4")
    rep.trust("z3", "pyvc symbolic executor")
    items = [(ThresholdOpCall(), [("swap_operator", verify.reverse_compare(0, lambda c: "y_hat" in ast.unparse(c)))])]
    try:
        from . import C10_more
        items += C10_more.items(rep)
    except ImportError:
        pass
    verify.verify_many(rep, items)
    from ..static import frames
    frames.report(rep, classes=["ExponentiatedGradient", "InterpolatedThresholder", "ThresholdOptimizer"], conditions=("F5", "F6"))      # repeating a prediction repeats the pmf: no private state
    from ..static import frames as _frames
    _frames.report(rep, table=_frames.CALLABLES, conditions=("F5",))      # a stored predictor keeps no memory of earlier calls (same object refilled in place -> new answer)
