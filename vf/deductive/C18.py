"""C18 deductive part: call-site conformance of the resampling call and purity of the seed stream (loop with invariant over any n_boot)."""
from ..contracts.bootstrap import BootstrapArguments, ManySamples, Quantiles, SingleSample
from ..contracts import mf_cache
from ..pyvc import verify


def run_deductive(rep):
    rep.assume("A2", "A3", "A4", "A7")
    rep.trust("pandas DataFrame.sample(frac=1, replace=True, random_state=s, axis=0, ignore_index=True): n rows, each a row of the frame, a function of (frame, s) (assumed)",
              "numpy default_rng(seed).integers(...) is a function of the seed (assumed)", "the quantile functions (np.quantile monotone in q) are covered by the bounded stand-in only",
              "z3", "pyvc symbolic executor")
    items = [(SingleSample(), [("resample_without_replacement", verify.replace_const(True, False, 0)),
                               ("half_sample", verify.replace_expr("1", "0.5", 0)),
                               ("metrics_on_the_original_data", verify.replace_expr("sampled_data", "data", 1))]),
             (ManySamples(), [("all_samples_from_the_first_derived_seed", verify.replace_expr("rs[i]", "rs[0]")),
                              ("one_sample_too_few", verify.replace_expr("range(n_samples)", "range(n_samples - 1)"))])]
    for nk in ("none", "int", "float"):
        for ck in ("none", "empty", "one", "two", "int_entry"):
            can = []
            if nk == "int" and ck == "two":
                can = [("quantile_one_accepted", verify.replace_expr("_ci >= 1", "_ci > 1")), ("zero_resamples_accepted", verify.replace_expr("n_boot < 1", "n_boot < 0")),
                       ("resampling_ignores_the_callers_seed", verify.replace_expr("random_state=random_state", "random_state=None"))]
            items.append((BootstrapArguments(nk, ck), can))
    items += [(Quantiles("frame"), [("missing_groups_poison_the_quantiles", verify.replace_expr("np.nanquantile", "np.quantile")),
                                    ("quantile_entries_all_from_the_first_quantile", verify.replace_expr("result_np[i, :, :]", "result_np[0, :, :]"))]),
              (Quantiles("series"), [])]
    items += mf_cache.ci_items(verify)          # the six bootstrap readers hand out the interval list of their own estimate (and method)
    verify.verify_many(rep, items)
