"""Driver: contract -> obligations from the real source -> solver -> verdicts in the Report (+ canary mutants)."""
import ast
import copy
import time
import traceback

from . import core, solve


class Lemma:
    """A fact used as an axiom in the VCs of a function; `proof` = (hyps, goal) discharged in the same run with the
    definitions revealed.  proof=None marks a *definition* (listed as trusted text, e.g. the recursive definition of a
    ghost counting function)."""

    def __init__(self, name, statement, proof=None):
        self.name, self.statement, self.proof = name, statement, proof


def _gen(contract, fn_node=None):
    eng = core.Engine(contract, fn_node=fn_node)
    eng.run()
    return eng


def verify(rep, contract, label="P", canaries=(), timeout_ms=30000, quiet=False, lemma_timeout_ms=30000):
    """returns dict(status='ok'|'failed'|'undecided', results=[...])"""
    fnname = f"{contract.source}::{contract.function}"
    t0 = time.time()
    try:
        src = core.Source.load(contract.source)
        node = src.func(contract.function)
        sha = src.sha(contract.function)
    except (core.EngineError, FileNotFoundError, SyntaxError) as ex:
        rep.add_obligation(f"{contract.function}.<extract>", fnname, "undecided", "pyvc", 0.0, label, detail=str(ex)[:300])
        return {"status": "undecided", "results": []}
    # lemmas first: no axiom enters a VC unless its own proof obligation was discharged in this run
    axioms = []
    lemmas_ok = True
    try:
        lemmas = list(contract.axioms())
    except Exception as ex:
        rep.add_obligation(f"{contract.function}.<lemmas>", fnname, "undecided", "pyvc", 0.0, label, detail=repr(ex)[:300])
        return {"status": "undecided", "results": []}
    for lem in lemmas:
        if lem.proof is None:
            axioms.append(lem.statement)
            rep.trust(f"definition {lem.name} (used as axiom in {contract.function})")
            continue
        r = solve.prove(f"lemma.{lem.name}", lem.proof[0], lem.proof[1], lemma_timeout_ms)
        ok = r.status == "unsat"
        rep.add_obligation(f"lemma.{lem.name}", fnname, "discharged" if ok else "undecided", r.backend, r.secs, label,
                           detail=None if ok else f"{r.status} {r.reason}")
        if ok:
            axioms.append(lem.statement)
        else:
            lemmas_ok = False
    try:
        eng = _gen(contract)
    except (core.Unsupported, core.EngineError, KeyError, AttributeError, TypeError, z3_error()) as ex:
        rep.add_function(contract.source, contract.function, getattr(node, "lineno", None), sha, role="under contract (not verified this run)")
        rep.add_obligation(f"{contract.function}.<vcgen>", fnname, "undecided", "pyvc", time.time() - t0, label,
                           detail=f"{type(ex).__name__}: {ex}"[:400])
        if not quiet:
            print(f"  [pyvc] {contract.function}: undecided ({type(ex).__name__}: {str(ex)[:200]})")
        return {"status": "undecided", "results": [], "error": ex}
    rep.add_function(contract.source, contract.function, node.lineno, sha, dropped=eng.dropped)
    if not eng.obligations:
        rep.add_obligation(f"{contract.function}.<no-obligations>", fnname, "undecided", "pyvc", 0.0, label, detail="zero obligations generated")
        return {"status": "undecided", "results": []}
    results = solve.discharge(eng.obligations, axioms, timeout_ms)
    status = "ok" if lemmas_ok else "undecided"
    failed = []
    for ob, r in zip(eng.obligations, results):
        if r.status == "unsat":
            rep.add_obligation(ob.name, fnname, "discharged", r.backend, r.secs, label)
            continue
        confirmed = None
        if r.status == "sat":
            try:
                confirmed = contract.replay(ob, r)          # -> None | dict(key, what, replay, confirmed)
            except Exception:
                confirmed = {"confirmed": False, "what": "replay crashed: " + traceback.format_exc()[-300:]}
        if r.status == "sat" and (not r.quantified or (confirmed and confirmed.get("confirmed"))):
            rep.add_obligation(ob.name, fnname, "failed", r.backend, r.secs, label, detail="refuted" + (" (replayed natively)" if confirmed and confirmed.get("confirmed") else ""))
            failed.append((ob, r, confirmed))
            status = "failed"
        else:
            rep.add_obligation(ob.name, fnname, "undecided", r.backend, r.secs, label, detail=f"{r.status} {r.reason}"[:200])
            if status == "ok":
                status = "undecided"
    # group failed obligations by base name (path index stripped) -> one violation per named obligation
    seen = set()
    for ob, r, confirmed in failed:
        base = ob.name.split("#")[0]
        if base in seen:
            continue
        seen.add(base)
        native = bool(confirmed and confirmed.get("confirmed"))
        key = (confirmed or {}).get("key") or f"{rep.pid}:{base}"
        what = (confirmed or {}).get("what") or f"obligation {base} refuted by {r.backend}"
        rep.violation(key, what,
                      replay={"obligation": ob.name, "function": fnname, "source_sha256": sha, "branch_trail": ob.trail,
                              "solver": r.backend, "solver_status": r.status, "model": r.model,
                              "native": (confirmed or {}).get("replay")},
                      obligation=ob.name, no_input=not native)
    # canaries (only meaningful when the real source verifies)
    if status == "ok":
        for (cname, transform) in canaries:
            try:
                mnode = copy.deepcopy(node)
                transform(mnode)
                ast.fix_missing_locations(mnode)
            except Exception as ex:
                rep.add_canary(contract.function, cname, True, by=f"not applicable to the current source ({ex!r})"[:120])
                continue
            try:
                ceng = core.Engine(contract, fn_node=mnode)
                ceng.run()
                cres = solve.discharge(ceng.obligations, axioms, min(timeout_ms, 10000), use_cvc5=False)
                bad = [o.name for o, r in zip(ceng.obligations, cres) if r.status != "unsat"]
                rep.add_canary(contract.function, cname, bool(bad), by=bad[0] if bad else None)
            except (core.Unsupported, core.EngineError) as ex:
                rep.add_canary(contract.function, cname, True, by=f"engine refuses mutant: {ex}"[:120])
    if not quiet:
        n = len(eng.obligations)
        d = sum(1 for r in results if r.status == "unsat")
        print(f"  [pyvc] {contract.function}: {d}/{n} obligations discharged, status={status}, {time.time() - t0:.1f}s")
    return {"status": status, "results": list(zip(eng.obligations, results)), "engine": eng}


def z3_error():
    import z3
    return z3.Z3Exception


# ------------------------------------------------------------------------------------------------ AST mutation helpers (canaries)
def nth(fn, typ, k, pred=None):
    found = [n for n in ast.walk(fn) if isinstance(n, typ) and (pred is None or pred(n))]
    found.sort(key=lambda n: (getattr(n, "lineno", 0), getattr(n, "col_offset", 0)))
    return found[k]


def flip_strictness(k=0, pred=None):
    sw = {ast.Lt: ast.LtE, ast.LtE: ast.Lt, ast.Gt: ast.GtE, ast.GtE: ast.Gt, ast.Eq: ast.NotEq, ast.NotEq: ast.Eq,
          ast.Is: ast.IsNot, ast.IsNot: ast.Is}

    def t(fn):
        c = nth(fn, ast.Compare, k, pred)
        c.ops[0] = sw[type(c.ops[0])]()
    return t


def reverse_compare(k=0, pred=None):
    sw = {ast.Lt: ast.Gt, ast.LtE: ast.GtE, ast.Gt: ast.Lt, ast.GtE: ast.LtE}

    def t(fn):
        c = nth(fn, ast.Compare, k, pred)
        c.ops[0] = sw[type(c.ops[0])]()
    return t


def replace_const(old, new, k=0):
    def t(fn):
        c = nth(fn, ast.Constant, k, lambda n: n.value == old and type(n.value) is type(old))
        c.value = new
    return t


def swap_binop(k, new_op, pred=None):
    def t(fn):
        b = nth(fn, ast.BinOp, k, pred)
        b.op = new_op()
    return t


def replace_expr(src_old, src_new, k=0):
    """replace the k-th expression whose unparse equals src_old by the parsed src_new"""
    def t(fn):
        new = ast.parse(src_new, mode="eval").body

        class T(ast.NodeTransformer):
            count = 0

            def generic_visit(self, node):
                node = super().generic_visit(node)
                if isinstance(node, ast.expr) and ast.unparse(node) == src_old:
                    T.count += 1
                    if T.count == k + 1:
                        return copy.deepcopy(new)
                return node
        T().visit(fn)
        if T.count <= k:
            raise ValueError(f"{src_old!r} not found")
    return t
