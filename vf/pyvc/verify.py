"""Driver: contract -> obligations from the real source -> solver -> verdicts in the Report (+ canary mutants)."""
import ast
import copy
import time
import traceback

from . import core, solve


class Lemma:
    """A fact used as an axiom in the VCs of a function; `proof` = (hyps, goal) discharged in the same run with the
    definitions revealed.  proof=None marks a *definition* (listed as trusted text, e.g. the recursive definition of a
    ghost counting function)."""

    def __init__(self, name, statement, proof=None):
        self.name, self.statement, self.proof = name, statement, proof


class _Item:
    def __init__(self, contract, canaries):
        self.c, self.canaries = contract, list(canaries)
        self.fnname = f"{contract.source}::{contract.function}"
        self.node = self.sha = self.eng = None
        self.lemmas, self.axioms, self.error, self.status = [], [], None, "ok"
        self.results, self.t0 = [], time.time()


def _prepare(it):
    c = it.c
    try:
        src = core.Source.load(c.source)
        it.node = src.func(c.function)
        it.sha = src.sha(c.function)
    except (core.EngineError, FileNotFoundError, SyntaxError) as ex:
        it.error = ("<extract>", ex)
        return
    try:
        it.lemmas = list(c.axioms())
    except Exception as ex:
        it.error = ("<lemmas>", ex)
        return
    try:
        it.eng = core.Engine(c)
        it.eng.run()
    except (core.Unsupported, core.EngineError, KeyError, AttributeError, TypeError, IndexError, z3_error()) as ex:
        # obligations generated before the executor gave up that are the constant False (a wiring / structural clause that is violated on that path)
        # are still judged; everything else of this function stays undecided
        partial = [ob for ob in (it.eng.obligations if it.eng is not None else []) if z3_is_false(ob.goal)]
        if partial:
            it.eng.obligations = partial
            it.incomplete = ex
        else:
            it.error = ("<vcgen>", ex)
            it.eng = None


class _Ob:
    def __init__(self, name, pc, goal):
        self.name, self.pc, self.goal = name, pc, goal


def verify_many(rep, items, label="P", timeout_ms=30000, quiet=True, lemma_timeout_ms=30000, run_canaries=True):
    """items: list of (contract, canaries).  All lemmas and obligations of all items are discharged in one process pool."""
    its = [_Item(c, can) for (c, can) in items]
    for it in its:
        _prepare(it)
    # ---- batch 1: lemmas (no axiom enters a VC unless its own proof obligation is discharged in this run) ----
    lem_jobs, lem_seen = [], {}
    for it in its:
        if it.error:
            continue
        for lem in it.lemmas:
            if lem.proof is not None and lem.name not in lem_seen:
                lem_seen[lem.name] = len(lem_jobs)
                lem_jobs.append(_Ob(f"lemma.{lem.name}", list(lem.proof[0]), lem.proof[1]))
    lem_res = solve.discharge(lem_jobs, (), lemma_timeout_ms) if lem_jobs else []
    reported_lemmas = set()
    for it in its:
        if it.error:
            continue
        for lem in it.lemmas:
            if lem.proof is None:
                it.axioms.append(lem.statement)
                rep.trust(f"definition/axiom {lem.name} (used in the VCs of {it.c.function})")
                continue
            r = lem_res[lem_seen[lem.name]]
            ok = r.status == "unsat"
            if lem.name not in reported_lemmas:
                reported_lemmas.add(lem.name)
                rep.add_obligation(f"lemma.{lem.name}", it.fnname, "discharged" if ok else "undecided", r.backend, r.secs, label,
                                   detail=None if ok else f"{r.status} {r.reason}")
            if ok:
                it.axioms.append(lem.statement)
            else:
                it.status = "undecided"
    # ---- vacuity guard: a contradictory precondition (or axiom set) would discharge everything ----
    cov_jobs, cov_owner = [], []
    for idx, it in enumerate(its):
        if it.error or it.eng is None:
            continue
        cov_jobs.append(_Ob(f"cover.{it.c.function}{getattr(it.c, 'variant', '')}", list(it.axioms) + list(getattr(it.eng, "pre_pc", [])), z3_false()))
        cov_owner.append(idx)
    for r, idx in zip(solve.discharge(cov_jobs, (), 3000, use_cvc5=False) if cov_jobs else [], cov_owner):
        if r.status == "unsat":          # precondition /\ axioms |- False
            its[idx].error = ("<vacuous-precondition>", core.EngineError("the precondition and axioms of this contract are contradictory"))
            rep.error(f"vacuous contract: {its[idx].c.function}{getattr(its[idx].c, 'variant', '')}")
    # ---- batch 2: the obligations generated from the real source ----
    jobs, owner = [], []
    for idx, it in enumerate(its):
        if it.error or it.eng is None:
            continue
        for ob in it.eng.obligations:
            if z3_is_false(ob.goal):
                # structural (wiring) obligation that evaluated to False: it is refuted iff its path is feasible; feasibility is judged on the
                # quantifier-free part of the path condition (decidable), which over-approximates the path
                import z3 as _z3
                jobs.append(_Ob(ob.name, [p_ for p_ in ob.pc if not _has_quantifier(p_)], ob.goal))
            else:
                jobs.append(_Ob(ob.name, list(it.axioms) + list(ob.pc), ob.goal))
            owner.append(idx)
    res = solve.discharge(jobs, (), timeout_ms) if jobs else []
    per = {}
    for r, idx in zip(res, owner):
        per.setdefault(idx, []).append(r)
    out = []
    for idx, it in enumerate(its):
        out.append(_report(rep, it, per.get(idx, []), label, quiet))
    # ---- batch 3: canary mutants of the functions that verified ----
    if run_canaries:
        cj, cown = [], []
        for idx, it in enumerate(its):
            if it.status != "ok" or it.eng is None:
                continue
            for (cname, transform) in it.canaries:
                try:
                    mnode = copy.deepcopy(it.node)
                    transform(mnode)
                    ast.fix_missing_locations(mnode)
                except Exception as ex:
                    rep.add_canary(it.c.function + getattr(it.c, "variant", ""), cname, True, by=f"not applicable to the current source ({ex!r})"[:120])
                    continue
                try:
                    ceng = core.Engine(it.c, fn_node=mnode)
                    ceng.run()
                except (core.Unsupported, core.EngineError, KeyError, AttributeError, TypeError, IndexError) as ex:
                    rep.add_canary(it.c.function + getattr(it.c, "variant", ""), cname, True, by=f"engine refuses mutant: {ex}"[:120])
                    continue
                for ob in ceng.obligations:
                    cj.append(_Ob(ob.name, list(it.axioms) + list(ob.pc), ob.goal))
                    cown.append((idx, cname))
        cres = solve.discharge(cj, (), min(timeout_ms, 8000), use_cvc5=False) if cj else []
        caught = {}
        for r, key, ob in zip(cres, cown, cj):
            caught.setdefault(key, None)
            if r.status != "unsat" and caught[key] is None:
                caught[key] = ob.name
        for (idx, cname), by in caught.items():
            rep.add_canary(its[idx].c.function + getattr(its[idx].c, "variant", ""), cname, by is not None, by=by)
    return out


def _report(rep, it, results, label, quiet):
    c = it.c
    if it.error:
        where, ex = it.error
        rep.add_function(c.source, c.function + getattr(c, "variant", ""), getattr(it.node, "lineno", None), it.sha, role="under contract (not verified this run)")
        rep.add_obligation(f"{c.function}{getattr(c, 'variant', '')}.{where}", it.fnname, "undecided", "pyvc", time.time() - it.t0, label,
                           detail=f"{type(ex).__name__}: {ex}"[:400])
        if not quiet:
            print(f"  [pyvc] {c.function}: undecided ({type(ex).__name__}: {str(ex)[:200]})")
        it.status = "undecided"
        # the function could not be brought under its contract (unmodelled construct): the contract's bounded native search, which does not depend on a solver
        # model, still gets a chance to find a real failing input
        try:
            confirmed = c.replay(None, None) if hasattr(c, "replay") else None
            if confirmed and confirmed.get("confirmed"):
                rep.violation(confirmed.get("key") or f"{rep.pid}:{c.function}:native", confirmed.get("what", ""),
                              replay={"function": it.fnname, "vcgen_error": f"{type(ex).__name__}: {ex}"[:300], "native": confirmed.get("replay")},
                              obligation=f"{c.function}{getattr(c, 'variant', '')}.{where}", no_input=False)
                it.status = "failed"
        except Exception:
            pass
        return {"status": it.status, "results": [], "error": ex}
    eng = it.eng
    rep.add_function(c.source, c.function + getattr(c, "variant", ""), it.node.lineno, it.sha, dropped=sorted(set(eng.dropped)))
    if getattr(it, "incomplete", None) is not None:
        rep.add_obligation(f"{c.function}{getattr(c, 'variant', '')}.<vcgen-incomplete>", it.fnname, "undecided", "pyvc", 0.0, label,
                           detail=f"{type(it.incomplete).__name__}: {it.incomplete}"[:400])
    if not eng.obligations:
        rep.add_obligation(f"{c.function}.<no-obligations>", it.fnname, "undecided", "pyvc", 0.0, label, detail="zero obligations generated")
        it.status = "undecided"
        return {"status": "undecided", "results": []}
    failed = []
    for ob, r in zip(eng.obligations, results):
        if r.status == "unsat":
            rep.add_obligation(ob.name, it.fnname, "discharged", r.backend, r.secs, label)
            continue
        confirmed = None
        if r.status == "sat":
            try:
                confirmed = c.replay(ob, r)
            except Exception:
                confirmed = {"confirmed": False, "what": "replay crashed: " + traceback.format_exc()[-300:]}
        structural = z3_is_false(ob.goal)     # a wiring obligation that evaluated to the constant False on this path: refuted as soon as the path is satisfiable
        if r.status == "sat" and (not r.quantified or structural or (confirmed and confirmed.get("confirmed"))):
            rep.add_obligation(ob.name, it.fnname, "failed", r.backend, r.secs, label,
                               detail="refuted" + (" (replayed natively)" if confirmed and confirmed.get("confirmed") else ""))
            failed.append((ob, r, confirmed))
            it.status = "failed"
        else:
            rep.add_obligation(ob.name, it.fnname, "undecided", r.backend, r.secs, label, detail=f"{r.status} {r.reason}"[:200])
            if it.status == "ok":
                it.status = "undecided"
    seen = set()
    for ob, r, confirmed in failed:
        base = ob.name.split("#")[0]
        if base in seen:
            continue
        seen.add(base)
        native = bool(confirmed and confirmed.get("confirmed"))
        key = (confirmed or {}).get("key") if native else None
        key = key or f"{rep.pid}:{base}"
        what = ((confirmed or {}).get("what") if native else None) or f"obligation {base} refuted by {r.backend}"
        rep.violation(key, what,
                      replay={"obligation": ob.name, "function": it.fnname, "source_sha256": it.sha, "branch_trail": ob.trail,
                              "solver": r.backend, "solver_status": r.status, "model": r.model,
                              "native": (confirmed or {}).get("replay")},
                      obligation=ob.name, no_input=not native)
    if it.status != "failed" and it.status == "undecided":
        # an undischarged (unknown) obligation: give the contract a chance to find a real failing input by its bounded native search
        try:
            und = [(ob, r) for ob, r in zip(eng.obligations, results) if r.status != "unsat"]
            if und and hasattr(c, "replay"):
                confirmed = c.replay(und[0][0], und[0][1])
                if confirmed and confirmed.get("confirmed"):
                    rep.violation(confirmed.get("key") or f"{rep.pid}:{und[0][0].name.split('#')[0]}", confirmed.get("what", ""),
                                  replay={"obligation": und[0][0].name, "function": it.fnname, "solver_status": und[0][1].status,
                                          "native": confirmed.get("replay")}, obligation=und[0][0].name, no_input=False)
                    it.status = "failed"
        except Exception:
            pass
    if not quiet:
        nn = len(eng.obligations)
        d = sum(1 for r in results if r.status == "unsat")
        print(f"  [pyvc] {c.function}{getattr(c, 'variant', '')}: {d}/{nn} obligations discharged, status={it.status}, {time.time() - it.t0:.1f}s")
    return {"status": it.status, "results": list(zip(eng.obligations, results)), "engine": eng}


def verify(rep, contract, label="P", canaries=(), timeout_ms=30000, quiet=False, lemma_timeout_ms=30000):
    return verify_many(rep, [(contract, canaries)], label, timeout_ms, quiet, lemma_timeout_ms)[0]


def _has_quantifier(e, _depth=0):
    import z3
    if z3.is_quantifier(e):
        return True
    if _depth > 40 or not z3.is_expr(e):
        return False
    return any(_has_quantifier(c, _depth + 1) for c in e.children())


def z3_is_false(g):
    import z3
    return z3.is_false(g) or (isinstance(g, bool) and g is False)


def z3_false():
    import z3
    return z3.BoolVal(False)


def z3_error():
    import z3
    return z3.Z3Exception


# ------------------------------------------------------------------------------------------------ AST mutation helpers (canaries)
def nth(fn, typ, k, pred=None):
    found = [n for n in ast.walk(fn) if isinstance(n, typ) and (pred is None or pred(n))]
    found.sort(key=lambda n: (getattr(n, "lineno", 0), getattr(n, "col_offset", 0)))
    return found[k]


def flip_strictness(k=0, pred=None):
    sw = {ast.Lt: ast.LtE, ast.LtE: ast.Lt, ast.Gt: ast.GtE, ast.GtE: ast.Gt, ast.Eq: ast.NotEq, ast.NotEq: ast.Eq,
          ast.Is: ast.IsNot, ast.IsNot: ast.Is}

    def t(fn):
        c = nth(fn, ast.Compare, k, pred)
        c.ops[0] = sw[type(c.ops[0])]()
    return t


def reverse_compare(k=0, pred=None):
    sw = {ast.Lt: ast.Gt, ast.LtE: ast.GtE, ast.Gt: ast.Lt, ast.GtE: ast.LtE}

    def t(fn):
        c = nth(fn, ast.Compare, k, pred)
        c.ops[0] = sw[type(c.ops[0])]()
    return t


def replace_const(old, new, k=0):
    def t(fn):
        c = nth(fn, ast.Constant, k, lambda n: n.value == old and type(n.value) is type(old))
        c.value = new
    return t


def swap_binop(k, new_op, pred=None):
    def t(fn):
        b = nth(fn, ast.BinOp, k, pred)
        b.op = new_op()
    return t


def replace_expr(src_old, src_new, k=0):
    """replace the k-th expression whose unparse equals src_old by the parsed src_new"""
    def t(fn):
        new = ast.parse(src_new, mode="eval").body

        class T(ast.NodeTransformer):
            count = 0

            def generic_visit(self, node):
                node = super().generic_visit(node)
                if isinstance(node, ast.expr) and ast.unparse(node) == src_old:
                    T.count += 1
                    if T.count == k + 1:
                        return copy.deepcopy(new)
                return node
        T().visit(fn)
        if T.count <= k:
            raise ValueError(f"{src_old!r} not found")
    return t
