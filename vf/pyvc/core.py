"""pyvc - verification-condition generator for a subset of Python, executed on the REAL source of /repo.

The engine parses a function out of the current working tree (ast), executes it symbolically statement by statement,
forks on symbolic branch conditions, cuts loops at sidecar invariants, replaces calls by contracts supplied by a
`Contract` object (or inlines small repo helpers), and emits one named obligation per assertion.  Obligations are
discharged by vf.pyvc.solve.  Anything outside the subset raises `Unsupported`, which the caller reports as
*undecided* (never as a violation).

Semantics assumed (listed in every evidence file): Python ints are mathematical integers, floats are mathematical
reals (A1), evaluation order is left to right, `and`/`or`/`if-else` guard the obligations of their later operands,
lists/dicts/objects are mutable references (state clones keep aliasing), exceptions end a path unless caught by a
supported `try/except` shape.
"""
import ast
import hashlib
import os

import z3
from z3 import And, BoolVal, If, Implies, IntSort, IntVal, Not, Or, RealSort, RealVal, StringVal, BoolSort, StringSort

REPO = os.environ.get("VERIF_REPO", "/repo")


class Unsupported(Exception):
    """Construct outside the verified subset -> the function is undecided for this run."""


class EngineError(Exception):
    """Contract/engine mismatch (e.g. an invariant names a variable that no longer exists) -> undecided."""


class PyRaise(Exception):
    """a Python exception raised while evaluating an expression (by a dependency contract): ends the path with status raise"""

    def __init__(self, exc):
        self.exc = exc


class _Fork(Exception):
    def __init__(self, cond):
        self.cond = cond


_FRESH = [0]


def fresh(name, sort=None):
    _FRESH[0] += 1
    return z3.Const(f"{name}!{_FRESH[0]}", sort if sort is not None else IntSort())


def is_z3(v):
    return isinstance(v, z3.ExprRef)


# ------------------------------------------------------------------------------------------------ values
class PyList:
    def __init__(self, items=()):
        self.items = list(items)

    def __repr__(self):
        return f"PyList({self.items})"


class PyDict:
    def __init__(self, d=None):
        self.d = dict(d or {})


class SymSeq:
    """Symbolic-length list: base array + eager overlay of written cells + length (overlay keeps Select(base,i) visible
    to E-matching, see DESIGN 3.2).  `wrap`/`unwrap` convert between the array element sort and engine values."""

    def __init__(self, arr, n, over=(), wrap=None, unwrap=None, tag=None):
        self.arr, self.n, self.over = arr, n, list(over)
        self.wrap = wrap or (lambda t: t)
        self.unwrap = unwrap or (lambda v: v)
        self.tag = tag

    def raw(self, i):
        t = z3.Select(self.arr, i)
        for (idx, val) in self.over:
            t = If(i == idx, val, t)
        return t

    def get(self, i):
        return self.wrap(self.raw(i))


class Obj:
    def __init__(self, cls, fields=None):
        self.cls, self.fields = cls, dict(fields or {})


class Closure:
    def __init__(self, node, env, module=None):
        self.node, self.env, self.module = node, env, module


class Exc:
    def __init__(self, typ, args=(), cause=None):
        self.typ, self.args, self.cause = typ, tuple(args), cause

    def __repr__(self):
        return f"Exc({self.typ})"


class Ext:
    """extended real: +inf / -inf / finite (NaN is not representable: arithmetic that could produce it is an obligation)."""

    def __init__(self, pinf, ninf, val):
        self.pinf, self.ninf, self.val = pinf, ninf, val

    @staticmethod
    def fin(v):
        return Ext(BoolVal(False), BoolVal(False), to_real(v))

    @staticmethod
    def inf(sign=1):
        return Ext(BoolVal(sign > 0), BoolVal(sign < 0), RealVal(0))

    def eq(self, o):
        return Or(And(self.pinf, o.pinf), And(self.ninf, o.ninf),
                  And(Not(self.pinf), Not(self.ninf), Not(o.pinf), Not(o.ninf), self.val == o.val))

    def is_fin(self):
        return And(Not(self.pinf), Not(self.ninf))

    def lt(self, o):
        return Or(And(self.ninf, Not(o.ninf)), And(o.pinf, Not(self.pinf)),
                  And(self.is_fin(), o.is_fin(), self.val < o.val))

    def le(self, o):
        return Or(self.lt(o), self.eq(o))


class Abstract:
    """Plugin-defined value (frames, tensors, estimators ...); operations on it are handled by Contract hooks."""

    def __init__(self, tag, **data):
        self.tag = tag
        self.__dict__.update(data)

    def __repr__(self):
        return f"Abstract({self.tag})"


def to_real(v):
    if isinstance(v, bool):
        return RealVal(1 if v else 0)
    if isinstance(v, (int, float)):
        return RealVal(v)
    if is_z3(v):
        if z3.is_int(v):
            return z3.ToReal(v)
        if z3.is_bool(v):
            return If(v, RealVal(1), RealVal(0))
        return v
    raise Unsupported(f"to_real({v!r})")


def lift(v):
    """python constant -> z3 term (ints stay Int, floats Real)."""
    if is_z3(v):
        return v
    if isinstance(v, bool):
        return BoolVal(v)
    if isinstance(v, int):
        return IntVal(v)
    if isinstance(v, float):
        if v != v or v in (float("inf"), float("-inf")):
            raise Unsupported("non-finite float constant in arithmetic position")
        return RealVal(repr(v))
    if isinstance(v, str):
        return StringVal(v)
    raise Unsupported(f"lift({v!r})")


def _copy(v, memo):
    if isinstance(v, (PyList, PyDict, Obj, SymSeq)):
        if id(v) in memo:
            return memo[id(v)]
        if isinstance(v, PyList):
            n = PyList()
            memo[id(v)] = n
            n.items = [_copy(x, memo) for x in v.items]
        elif isinstance(v, PyDict):
            n = PyDict()
            memo[id(v)] = n
            n.d = {k: _copy(x, memo) for k, x in v.d.items()}
        elif isinstance(v, Obj):
            n = Obj(v.cls)
            memo[id(v)] = n
            n.fields = {k: _copy(x, memo) for k, x in v.fields.items()}
        else:
            n = SymSeq(v.arr, v.n, list(v.over), v.wrap, v.unwrap, v.tag)
            memo[id(v)] = n
        return n
    if isinstance(v, Abstract) and v.tag == "concrete_iter":
        if id(v) in memo:
            return memo[id(v)]
        n = Abstract("concrete_iter", items=list(v.items), kind=getattr(v, "kind", None))
        memo[id(v)] = n
        return n
    if isinstance(v, tuple):
        return tuple(_copy(x, memo) for x in v)
    if isinstance(v, dict):
        return {k: _copy(x, memo) for k, x in v.items()}
    return v


class State:
    def __init__(self):
        self.env, self.pc, self.decisions, self.ghost = {}, [], [], {}
        self.cattrs = None         # path-local copy of the contract's attributes (see _PathLocal)
        self.trail = []            # human readable branch trail (for obligation names / replay)

    def clone(self):
        s = State()
        memo = {}
        s.env = {k: _copy(v, memo) for k, v in self.env.items()}
        s.ghost = {k: _copy(v, memo) for k, v in self.ghost.items()}
        s.pc, s.decisions, s.trail = list(self.pc), list(self.decisions), list(self.trail)
        s.cattrs = _ccopy(getattr(self, "cattrs", None))
        return s

    def assume(self, *fs):
        for f in fs:
            if f is True or (is_z3(f) and z3.is_true(f)):
                continue
            self.pc.append(BoolVal(f) if isinstance(f, bool) else f)


# ------------------------------------------------------------------------------------------------ source access
class Source:
    """A module of the repository, parsed from the working tree on every run."""
    _cache = {}

    def __init__(self, relpath):
        self.relpath = relpath
        self.path = os.path.join(REPO, relpath)
        self.text = open(self.path).read()
        self.tree = ast.parse(self.text)
        self.funcs, self.classes, self.consts, self.imports = {}, {}, {}, {}
        for n in self.tree.body:
            if isinstance(n, ast.FunctionDef):
                self.funcs[n.name] = n
            elif isinstance(n, ast.ClassDef):
                self.classes[n.name] = n
                for m in n.body:
                    if isinstance(m, ast.FunctionDef):
                        self.funcs[f"{n.name}.{m.name}"] = m
            elif isinstance(n, ast.Assign) and len(n.targets) == 1 and isinstance(n.targets[0], ast.Name):
                self.consts[n.targets[0].id] = n.value
            elif isinstance(n, ast.AnnAssign) and isinstance(n.target, ast.Name) and n.value is not None:
                self.consts[n.target.id] = n.value
            elif isinstance(n, ast.ImportFrom):
                for a in n.names:
                    self.imports[a.asname or a.name] = (n.level, n.module, a.name)
            elif isinstance(n, ast.Import):
                for a in n.names:
                    self.imports[a.asname or a.name.split(".")[0]] = (0, a.name, None)

    @classmethod
    def load(cls, relpath):
        return cls(relpath)        # deliberately not cached across runs; cheap

    def func(self, qualname):
        if qualname == "<module>":      # the module-level statements as one synthetic function (imports and definitions excluded)
            body = [n for n in self.tree.body if not isinstance(n, (ast.Import, ast.ImportFrom, ast.FunctionDef, ast.ClassDef))]
            fn = ast.FunctionDef(name="<module>", args=ast.arguments(posonlyargs=[], args=[], kwonlyargs=[], kw_defaults=[], defaults=[]), body=body,
                                 decorator_list=[], lineno=1, col_offset=0)
            return fn
        if qualname in self.funcs:
            return self.funcs[qualname]
        body, node = self.tree.body, None          # nested defs: Class.method.inner
        for part in qualname.split("."):
            node = next((n for n in body if isinstance(n, (ast.FunctionDef, ast.ClassDef)) and n.name == part), None)
            if node is None:
                raise EngineError(f"{self.relpath}: function {qualname} not found")
            body = node.body
        if not isinstance(node, ast.FunctionDef):
            raise EngineError(f"{self.relpath}: {qualname} is not a function")
        return node

    def sha(self, qualname):
        seg = self.text if qualname == "<module>" else (ast.get_source_segment(self.text, self.func(qualname)) or "")
        return hashlib.sha256(seg.encode()).hexdigest()[:16]

    def resolve_import(self, name):
        """from .mod import NAME  ->  (Source of mod, NAME) when it is a repo-relative import."""
        if name not in self.imports:
            return None
        level, module, orig = self.imports[name]
        if orig is None:
            return None
        if level == 0:
            if not (module or "").startswith("fairlearn"):
                return None
            rel = os.path.join(*module.split("."))
        else:
            base = os.path.dirname(self.relpath)
            for _ in range(level - 1):
                base = os.path.dirname(base)
            rel = os.path.join(base, *(module.split(".") if module else []))
        for cand in (rel + ".py", os.path.join(rel, "__init__.py")):
            if os.path.exists(os.path.join(REPO, cand)):
                src = Source.load(cand)
                if orig in src.funcs or orig in src.consts or orig in src.classes:
                    return src, orig
                return src.resolve_import(orig)
        return None


def loop_ordinals(fn):
    """document-order numbering of the loops of a function (nested defs excluded)."""
    out, k = {}, [0]

    def walk(stmts):
        for s in stmts:
            if isinstance(s, (ast.For, ast.While)):
                out[id(s)] = k[0]
                k[0] += 1
                walk(s.body)
                walk(s.orelse)
            elif isinstance(s, ast.If):
                walk(s.body)
                walk(s.orelse)
            elif isinstance(s, ast.Try):
                walk(s.body)
                for h in s.handlers:
                    walk(h.body)
                walk(s.orelse)
                walk(s.finalbody)
            elif isinstance(s, ast.With):
                walk(s.body)
    walk(fn.body)
    return out


# ------------------------------------------------------------------------------------------------ contracts
class LoopSpec:
    """Sidecar loop annotation. inv(st) -> [(name, z3 goal)]; prepare(st) may re-shape values before the loop is entered
    (e.g. turn `[]` into an empty SymSeq); havoc_types overrides the havoc shape of a name; ghost_havoc(st) havocs ghost
    state; unroll=True forces unrolling of a loop over a concrete iterable."""

    def __init__(self, inv, prepare=None, havoc_types=None, ghost_havoc=None, extra_havoc=()):
        self.inv, self.prepare, self.havoc_types = inv, prepare, havoc_types or {}
        self.ghost_havoc, self.extra_havoc = ghost_havoc, tuple(extra_havoc)


class Contract:
    """Base class of a sidecar contract for one function of the repository."""
    source = None          # repo-relative path
    function = None        # qualname
    inline_depth = 3

    def params(self, eng, st):
        """bind symbolic arguments into st.env and add the precondition to st.pc"""
        raise NotImplementedError

    def loops(self):
        return {}

    def body(self, fn):
        """the statements that are verified (default: the whole body); a contract may verify a suffix/prefix and must say so"""
        return fn.body

    def post(self, eng, st, status, value):
        """-> [(name, goal)] for an exit of kind status in {'return','raise'}"""
        return []

    def axioms(self):
        return []

    def on_call(self, eng, st, node, name, recv, args, kwargs):
        return NotImplemented

    def on_attr(self, eng, st, node, base, attr):
        return NotImplemented

    def on_subscript(self, eng, st, node, base, index):
        return NotImplemented

    def on_binop(self, eng, st, node, op, a, b):
        return NotImplemented

    def on_compare(self, eng, st, node, op, a, b):
        return NotImplemented

    def on_name(self, eng, st, name):
        return NotImplemented

    def on_iter(self, eng, st, node, it):
        return NotImplemented

    def on_truth(self, eng, st, v):
        return NotImplemented

    def on_branch(self, eng, st, test_node, cond):
        """one-directional 'fold' of a raw branch test into opaque spec predicates; must emit its own soundness obligations"""
        return None

    def on_store_subscript(self, eng, st, node, base, index, value):
        return NotImplemented

    def on_store_attr(self, eng, st, node, base, attr, value):
        return NotImplemented

    def havoc_abstract(self, eng, st, name, v):
        raise Unsupported(f"havoc of abstract value {name}")

    def droppable(self, stmt):
        return False

    def replay(self, ob, result):
        """turn a solver model into a native run of the real function: -> None | dict(confirmed, key, what, replay)"""
        return None


class Obligation:
    __slots__ = ("name", "pc", "goal", "kind", "line", "trail")

    def __init__(self, name, pc, goal, kind, line, trail):
        self.name, self.pc, self.goal, self.kind, self.line, self.trail = name, pc, goal, kind, line, trail


class IterSpec:
    def __init__(self, length, elem):
        self.length, self.elem = length, elem


_CMP = {ast.Eq: lambda a, b: a == b, ast.NotEq: lambda a, b: a != b, ast.Lt: lambda a, b: a < b, ast.LtE: lambda a, b: a <= b,
        ast.Gt: lambda a, b: a > b, ast.GtE: lambda a, b: a >= b}
_EXC_NAMES = {"ValueError", "TypeError", "RuntimeError", "KeyError", "IndexError", "AssertionError", "NotImplementedError",
              "Exception", "ZeroDivisionError", "AttributeError", "NotFittedError", "StopIteration"}


def _ccopy(d):
    """one-level copy of a contract's attribute dict (containers are copied so that appends made on one path do not show on another)"""
    if d is None:
        return None
    return {k: (list(v) if type(v) is list else dict(v) if type(v) is dict else set(v) if type(v) is set else v) for k, v in d.items()}


class _PathLocal:
    """Proxy through which the engine calls the contract: attributes that a hook writes on the contract instance are PATH-LOCAL.
    All live paths execute a statement in lock step, so an attribute written by a hook on one path would otherwise be seen by the `post` of every
    path (found when a mutant forked inside `AnnotatedMetricFunction.__call__`).  The attribute dict is stored in the state after every outermost hook
    call and restored before the next one; State.clone copies it."""
    _HOOKS = ("params", "post")

    def __init__(self, contract):
        object.__setattr__(self, "_c", contract)
        object.__setattr__(self, "_depth", 0)

    def __setattr__(self, k, v):
        setattr(self._c, k, v)

    def _load(self, st):
        if self._depth == 0 and isinstance(st, State) and getattr(st, "cattrs", None) is not None:
            self._c.__dict__.clear()
            self._c.__dict__.update(_ccopy(st.cattrs))

    def __getattr__(self, name):
        attr = getattr(self._c, name)
        if not (callable(attr) and (name.startswith("on_") or name in self._HOOKS)):
            return attr

        def call(eng, st, *a, **k):
            self._load(st)
            object.__setattr__(self, "_depth", self._depth + 1)
            try:
                return attr(eng, st, *a, **k)
            finally:
                object.__setattr__(self, "_depth", self._depth - 1)
                if self._depth == 0 and isinstance(st, State):
                    st.cattrs = _ccopy(self._c.__dict__)
        return call


class Engine:
    def __init__(self, contract, fn_node=None, source=None):
        self.c = _PathLocal(contract)
        self.src = source or Source.load(contract.source)
        self.fn = fn_node if fn_node is not None else self.src.func(contract.function)
        self.loop_id = loop_ordinals(self.fn)
        rets = sorted((n for n in ast.walk(self.fn) if isinstance(n, ast.Return)), key=lambda n: (n.lineno, n.col_offset))
        self.return_ord = {id(n): k for k, n in enumerate(rets)}
        self.loop_specs = contract.loops()
        self.obligations = []
        self.exits = []
        self.dropped = []
        self.depth = 0
        self._names = {}

    # ------------------------------------------------------------------ obligations
    def oblige(self, st, name, goal, kind="assert", node=None):
        if goal is True or (is_z3(goal) and z3.is_true(goal)):
            goal = BoolVal(True)
        if isinstance(goal, bool):
            goal = BoolVal(goal)
        line = getattr(node, "lineno", None)
        base = f"{self.c.function}{getattr(self.c, 'variant', '')}.{name}" + (f"@L{line}" if line else "")
        k = self._names.get(base, 0)
        self._names[base] = k + 1
        self.obligations.append(Obligation(f"{base}#{k}", list(st.pc), goal, kind, line, list(st.trail)))

    # ------------------------------------------------------------------ run
    def run(self):
        st = State()
        self.c.params(self, st)
        self.pre_pc = list(st.pc)          # the precondition, for the vacuity guard (must not be unsatisfiable)
        for (s, status) in self.block(self.c.body(self.fn), st):
            if status == "fall":
                status = ("return", None)
            if status in ("break", "continue"):
                raise EngineError("break/continue outside loop")
            kind, val = status
            self.exits.append((s, kind, val))
            for (name, goal) in self.c.post(self, s, kind, val) or []:
                self.oblige(s, name, goal, kind="post")
        return self.obligations

    # ------------------------------------------------------------------ statements
    def block(self, stmts, st):
        outs = [(st, "fall")]
        for s in stmts:
            nxt = []
            for (s0, status) in outs:
                if status == "fall":
                    nxt.extend(self.stmt_forking(s, s0))
                else:
                    nxt.append((s0, status))
            outs = nxt
            if len(outs) > 4000:
                raise Unsupported("path explosion (> 4000 paths)")
        return outs

    def stmt_forking(self, s, st):
        """executes one statement; a symbolic truth test inside it restarts the statement in two cloned states."""
        if isinstance(s, (ast.If, ast.While, ast.For, ast.Try, ast.With)):
            return self.stmt(s, st)          # compound statements manage their own forking for the test expression
        snap = st.clone()
        mark, names, fmark = len(self.obligations), dict(self._names), _FRESH[0]
        try:
            return self.stmt(s, st)
        except PyRaise as pr:
            return [(st, ("raise", pr.exc))]
        except _Fork as f:
            del self.obligations[mark:]
            self._names = names
            outs = []
            for val in (True, False):
                b = snap.clone()
                b.decisions.append((f.cond, val))
                b.pc.append(f.cond if val else Not(f.cond))
                if self.infeasible(b):
                    continue
                _FRESH[0] = fmark          # the restarted statement re-creates the same fresh names, so recorded decisions match
                outs.extend(self.stmt_forking(s, b))
            return outs

    def eval_forking(self, e, st):
        """evaluate expression e; returns [(state, value)] (forks on symbolic truth tests inside e)."""
        snap = st.clone()
        mark, names, fmark = len(self.obligations), dict(self._names), _FRESH[0]
        try:
            return [(st, self.ev(e, st))]
        except PyRaise as pr:
            return [(st, pr)]
        except _Fork as f:
            del self.obligations[mark:]
            self._names = names
            outs = []
            for val in (True, False):
                b = snap.clone()
                b.decisions.append((f.cond, val))
                b.pc.append(f.cond if val else Not(f.cond))
                if self.infeasible(b):
                    continue
                _FRESH[0] = fmark
                outs.extend(self.eval_forking(e, b))
            return outs

    def branch(self, test, st):
        """-> [(state, python bool)] for the truth value of expression `test`"""
        outs = []
        for (s, v) in self.eval_forking(test, st):
            if isinstance(v, PyRaise):
                outs.append((s, v))
                continue
            t = self.truth(v, s)
            if isinstance(t, bool):
                outs.append((s, t))
                continue
            if self.depth > 0:
                outs.append((s, self.decide(t, s)))
                continue
            extra = self.c.on_branch(self, s, test, t)       # contract "fold" hints: (facts if taken, facts if not taken)
            a, b = s, s.clone()
            a.pc.append(t)
            a.trail.append(f"L{getattr(test, 'lineno', '?')}:T")
            b.pc.append(Not(t))
            b.trail.append(f"L{getattr(test, 'lineno', '?')}:F")
            if extra:
                a.pc.extend(extra[0])
                b.pc.extend(extra[1])
            for (x, val) in ((a, True), (b, False)):
                if not self.infeasible(x):
                    outs.append((x, val))
        return outs

    def infeasible(self, st):
        """definite unsat of the path condition (cheap, sound pruning of dead branches)."""
        if not getattr(self.c, "prune", True):
            return False
        sol = z3.Solver()
        sol.set("timeout", 400)
        for k, v in (("auto_config", False), ("smt.mbqi", False)):
            sol.set(k, v)
        for ax in self._prune_axioms():
            sol.add(ax)
        sol.add(*st.pc)
        return sol.check() == z3.unsat

    def _prune_axioms(self):
        return ()

    def stmt(self, s, st):
        if isinstance(s, ast.Expr):
            if isinstance(s.value, ast.Constant):
                return [(st, "fall")]                      # docstring
            if self._is_log_call(s.value) or self.c.droppable(s):
                self.dropped.append(s.lineno)
                return [(st, "fall")]
            self.ev(s.value, st)
            return [(st, "fall")]
        if isinstance(s, ast.Pass):
            return [(st, "fall")]
        if isinstance(s, (ast.Import, ast.ImportFrom)):
            return [(st, "fall")]
        if isinstance(s, ast.Assign):
            if self.c.droppable(s):
                self.dropped.append(s.lineno)
                return [(st, "fall")]
            v = self.ev(s.value, st)
            for t in s.targets:
                self.assign(t, v, st)
            return [(st, "fall")]
        if isinstance(s, ast.AnnAssign):
            if s.value is not None:
                self.assign(s.target, self.ev(s.value, st), st)
            return [(st, "fall")]
        if isinstance(s, ast.AugAssign):
            cur = self.ev(_load(s.target), st)
            v = self.binop(s, s.op, cur, self.ev(s.value, st), st)
            self.assign(s.target, v, st)
            return [(st, "fall")]
        if isinstance(s, ast.Return):
            st.env["$ret"] = self.return_ord.get(id(s), -1)
            return [(st, ("return", self.ev(s.value, st) if s.value is not None else None))]
        if isinstance(s, ast.Raise):
            if s.exc is None:
                return [(st, ("raise", st.env.get("$exc", Exc("Exception"))))]
            e = self.ev(s.exc, st)
            if not isinstance(e, Exc):
                e = Exc(str(getattr(e, "tag", "Exception")))
            return [(st, ("raise", e))]
        if isinstance(s, ast.Assert):
            outs = []
            for (b, t) in self.branch(s.test, st):
                if isinstance(t, PyRaise):
                    outs.append((b, ("raise", t.exc)))
                    continue
                outs.append((b, "fall") if t else (b, ("raise", Exc("AssertionError"))))
            return outs
        if isinstance(s, ast.Break):
            return [(st, "break")]
        if isinstance(s, ast.Continue):
            return [(st, "continue")]
        if isinstance(s, ast.If):
            if self.c.droppable(s):
                self.dropped.append(s.lineno)
                return [(st, "fall")]
            outs = []
            for (b, t) in self.branch(s.test, st):
                if isinstance(t, PyRaise):
                    outs.append((b, ("raise", t.exc)))
                    continue
                outs.extend(self.block(s.body if t else s.orelse, b))
            return outs
        if isinstance(s, ast.While):
            return self.loop(s, st)
        if isinstance(s, ast.For):
            return self.loop(s, st)
        if isinstance(s, ast.FunctionDef):
            st.env[s.name] = Closure(s, st.env)
            return [(st, "fall")]
        if isinstance(s, ast.Try):
            return self.try_stmt(s, st)
        if isinstance(s, ast.With):
            # context managers are contract-modelled: hook calls "$enter" (value bound to `as` name) and "$exit" on every exit of the body
            cms = []
            for item in s.items:
                cm = self.ev(item.context_expr, st)
                r = self.c.on_call(self, st, item.context_expr, "$enter", cm, [], {})
                if r is NotImplemented:
                    raise Unsupported("with-statement over an unmodelled context manager")
                if item.optional_vars is not None:
                    self.assign(item.optional_vars, r, st)
                cms.append((cm, item.context_expr))
            outs = self.block(s.body, st)
            for (s2, status) in outs:
                for cm, node in reversed(cms):
                    self.c.on_call(self, s2, node, "$exit", cm, [], {})
            return outs
        if isinstance(s, ast.Delete):
            raise Unsupported("del")
        raise Unsupported(f"statement {type(s).__name__} at line {s.lineno}")

    def _is_log_call(self, e):
        if not isinstance(e, ast.Call):
            return False
        f = ast.unparse(e.func)
        if f.startswith(("logger.", "logging.", "warnings.warn", "_logger.")) or f == "print":
            for a in ast.walk(e):
                if isinstance(a, ast.Call) and a is not e and ast.unparse(a.func).split(".")[-1] not in (
                        "str", "format", "round", "len", "repr", "join"):
                    return False
            return True
        return False

    def try_stmt(self, s, st):
        if s.finalbody or s.orelse:
            raise Unsupported("try/finally/else")
        outs = []
        for (b, status) in self.block(s.body, st):
            if isinstance(status, tuple) and status[0] == "raise":
                exc = status[1]
                handled = False
                for h in s.handlers:
                    names = [] if h.type is None else [ast.unparse(x) for x in (h.type.elts if isinstance(h.type, ast.Tuple) else [h.type])]
                    if h.type is None or exc.typ in names or "Exception" in names:
                        if h.name:
                            b.env[h.name] = exc
                        b.env["$exc"] = exc
                        outs.extend(self.block(h.body, b))
                        handled = True
                        break
                if not handled:
                    outs.append((b, status))
            else:
                outs.append((b, status))
        return outs

    # ------------------------------------------------------------------ assignment
    def assign(self, t, v, st):
        if isinstance(t, ast.Name):
            st.env[t.id] = v
        elif isinstance(t, (ast.Tuple, ast.List)):
            items = v.items if isinstance(v, PyList) else v
            if not isinstance(items, (tuple, list)) or len(items) != len(t.elts):
                raise Unsupported(f"unpacking of {v!r}")
            for a, b in zip(t.elts, items):
                self.assign(a, b, st)
        elif isinstance(t, ast.Subscript):
            base = self.ev(t.value, st)
            idx = self.ev_index(t.slice, st)
            r = self.c.on_store_subscript(self, st, t, base, idx, v)
            if r is not NotImplemented:
                return
            if isinstance(base, PyDict) and not is_z3(idx):
                base.d[idx] = v
            elif isinstance(base, PyList):
                if isinstance(idx, int):
                    base.items[idx] = v
                else:
                    n = len(base.items)
                    self.oblige(st, "index_in_range", Or(*[idx == k for k in range(n)]), "bounds", t)
                    base.items = [_ite(idx == k, v, old) for k, old in enumerate(base.items)]
            elif isinstance(base, SymSeq):
                idx = lift(idx)
                self.oblige(st, "index_in_range", And(0 <= idx, idx < base.n), "bounds", t)
                base.over.append((idx, base.unwrap(v)))
            else:
                raise Unsupported(f"store into {base!r}")
        elif isinstance(t, ast.Attribute):
            base = self.ev(t.value, st)
            r = self.c.on_store_attr(self, st, t, base, t.attr, v)
            if r is not NotImplemented:
                return
            if isinstance(base, Obj):
                base.fields[t.attr] = v
            else:
                raise Unsupported(f"attribute store on {base!r}")
        else:
            raise Unsupported(f"assignment target {type(t).__name__}")

    # ------------------------------------------------------------------ loops
    def modified_names(self, body):
        names, attrs = set(), set()

        def tgt(t):
            if isinstance(t, ast.Name):
                names.add(t.id)
            elif isinstance(t, (ast.Tuple, ast.List)):
                for x in t.elts:
                    tgt(x)
            elif isinstance(t, ast.Subscript):
                root, via_attr = t.value, False
                while isinstance(root, (ast.Subscript, ast.Attribute)):
                    if isinstance(root, ast.Attribute) and isinstance(root.value, ast.Name):
                        attrs.add((root.value.id, root.attr))
                        via_attr = True
                    root = root.value
                if isinstance(root, ast.Name) and not via_attr:
                    names.add(root.id)
            elif isinstance(t, ast.Attribute) and isinstance(t.value, ast.Name):
                attrs.add((t.value.id, t.attr))
        for n in body:
            for x in ast.walk(n):
                if isinstance(x, ast.Assign):
                    for t in x.targets:
                        tgt(t)
                elif isinstance(x, (ast.AugAssign, ast.AnnAssign)):
                    tgt(x.target)
                elif isinstance(x, ast.For):
                    tgt(x.target)
                elif isinstance(x, ast.Call) and isinstance(x.func, ast.Attribute) and x.func.attr in (
                        "append", "pop", "extend", "insert", "sort", "update", "clear", "remove", "setdefault"):
                    r = x.func.value
                    if isinstance(r, ast.Name):
                        names.add(r.id)
                    elif isinstance(r, ast.Attribute) and isinstance(r.value, ast.Name):
                        attrs.add((r.value.id, r.attr))
                elif isinstance(x, ast.NamedExpr):
                    tgt(x.target)
        return names, attrs

    def havoc_value(self, name, v, st, spec):
        if spec is not None and name in spec.havoc_types:
            return spec.havoc_types[name](st)
        if isinstance(v, bool):
            return fresh(name, BoolSort())
        if isinstance(v, int):
            return fresh(name, IntSort())
        if isinstance(v, float):
            return fresh(name, RealSort())
        if isinstance(v, str):
            return fresh(name, StringSort())
        if is_z3(v):
            return fresh(name, v.sort())
        if isinstance(v, tuple):
            return tuple(self.havoc_value(f"{name}_{k}", x, st, None) for k, x in enumerate(v))
        if isinstance(v, PyList):
            v.items = [self.havoc_value(f"{name}_{k}", x, st, None) for k, x in enumerate(v.items)]
            return v
        if isinstance(v, SymSeq):
            n = fresh(name + "_len")
            st.assume(n >= 0)
            v.arr, v.n, v.over = fresh(name + "_arr", v.arr.sort()), n, []
            return v
        if isinstance(v, Ext):
            return Ext(fresh(name + "_pinf", BoolSort()), fresh(name + "_ninf", BoolSort()), fresh(name + "_val", RealSort()))
        if isinstance(v, Abstract):
            return self.c.havoc_abstract(self, st, name, v)
        if v is None:
            raise Unsupported(f"loop modifies '{name}' which is None at loop entry (needs havoc_types)")
        raise Unsupported(f"cannot havoc {name} = {v!r}")

    def loop(self, s, st):
        lid = self.loop_id.get(id(s))
        spec = self.loop_specs.get(lid)
        is_for = isinstance(s, ast.For)
        outs = []
        if is_for:
            for (st1, it) in self.eval_forking(s.iter, st):
                if isinstance(it, PyRaise):
                    outs.append((st1, ("raise", it.exc)))
                    continue
                outs.extend(self._loop_iter(s, st1, it, lid, spec))
            return outs
        return self._loop_cut(s, st, lid, spec, None)

    def _concrete_items(self, it):
        if isinstance(it, PyList):
            return list(it.items)
        if isinstance(it, tuple):
            return list(it)
        if isinstance(it, range):
            return list(it)
        if isinstance(it, Abstract) and it.tag == "concrete_iter":
            return list(it.items)
        if isinstance(it, PyDict):          # iterating a dict yields its keys in insertion order
            return list(it.d.keys())
        return None

    def _loop_iter(self, s, st, it, lid, spec):
        items = self._concrete_items(it)
        if items is not None:               # a concrete (short) iterable is unrolled even when the same statement has an invariant for its symbolic variant
            if s.orelse:
                raise Unsupported("for/else")
            outs, live = [], [(st, "fall")]
            for item in items:
                nxt = []
                for (s0, status) in live:
                    self.assign(s.target, item, s0)
                    for (s1, st1) in self.block(s.body, s0):
                        if st1 in ("fall", "continue"):
                            nxt.append((s1, "fall"))
                        elif st1 == "break":
                            outs.append((s1, "fall"))
                        else:
                            outs.append((s1, st1))
                live = nxt
            return outs + live
        if spec is None:
            raise Unsupported(f"loop #{lid} at line {s.lineno} needs an invariant")
        ispec = self.c.on_iter(self, st, s, it)
        if ispec is NotImplemented:
            if isinstance(it, SymSeq):
                ispec = IterSpec(it.n, it.get)
            elif isinstance(it, Abstract) and it.tag == "range":
                ispec = IterSpec(If(it.hi > it.lo, it.hi - it.lo, 0), lambda i, it=it: it.lo + i)
            else:
                raise Unsupported(f"iteration over {it!r}")
        return self._loop_cut(s, st, lid, spec, ispec)

    def _loop_cut(self, s, st, lid, spec, ispec):
        if spec is None:
            raise Unsupported(f"loop #{lid} at line {s.lineno} needs an invariant")
        if s.orelse:
            raise Unsupported("loop else")
        ctr = f"$k{lid}"
        if ispec is not None:
            st.env[ctr] = IntVal(0)
            st.env[f"$len{lid}"] = ispec.length
        if spec.prepare:
            self.c._load(st)
            spec.prepare(st)
        self.c._load(st)
        for (nm, g) in spec.inv(st):
            self.oblige(st, f"loop{lid}.init.{nm}", g, "inv_init", s)
        names, attrs = self.modified_names(s.body)
        if ispec is not None:
            names.add(ctr)
            tn, _ = self.modified_names([ast.Assign(targets=[s.target], value=ast.Constant(0))])
            names |= tn
        names |= set(spec.extra_havoc)
        h = st.clone()
        for nm in sorted(names):
            if nm in h.env:
                h.env[nm] = self.havoc_value(nm, h.env[nm], h, spec)
            elif spec and nm in spec.havoc_types:
                h.env[nm] = spec.havoc_types[nm](h)
            # names first assigned inside the loop need no havoc (they are undefined at the head)
        for (on, at) in sorted(attrs):
            o = h.env.get(on)
            if isinstance(o, Obj) and at in o.fields:
                o.fields[at] = self.havoc_value(f"{on}.{at}", o.fields[at], h, spec)
        self.c._load(h)
        if spec.ghost_havoc:
            spec.ghost_havoc(h)
        for (nm, g) in spec.inv(h):
            h.assume(g)
        outs = []
        # guard
        if ispec is not None:
            k = h.env[ctr]
            it_st, ex_st = h.clone(), h
            it_st.pc.append(k < ispec.length)
            ex_st.pc.append(Not(k < ispec.length))
            self.assign(s.target, ispec.elem(k), it_st)
            guards = [(it_st, True), (ex_st, False)]
        else:
            guards = self.branch(s.test, h)
        for (g_st, taken) in guards:
            if isinstance(taken, PyRaise):
                outs.append((g_st, ("raise", taken.exc)))
                continue
            if not taken:
                outs.append((g_st, "fall"))
                continue
            for (e, status) in self.block(s.body, g_st):
                if status in ("fall", "continue"):
                    if ispec is not None:
                        e.env[ctr] = e.env[ctr] + 1
                    self.c._load(e)
                    for (nm, g) in spec.inv(e):
                        self.oblige(e, f"loop{lid}.preserved.{nm}", g, "inv_pres", s)
                elif status == "break":
                    outs.append((e, "fall"))
                else:
                    outs.append((e, status))
        return outs

    # ------------------------------------------------------------------ truth
    def truth(self, v, st):
        r = self.c.on_truth(self, st, v)
        if r is not NotImplemented:
            return r
        if v is None or isinstance(v, (bool, int, float, str)):
            return bool(v)
        if is_z3(v):
            if z3.is_bool(v):
                sv = z3.simplify(v)
                if z3.is_true(sv):
                    return True
                if z3.is_false(sv):
                    return False
                return v
            if z3.is_int(v) or z3.is_real(v):
                return v != 0
            if z3.is_string(v):
                return z3.Length(v) > 0
        if isinstance(v, PyList):
            return len(v.items) > 0
        if isinstance(v, tuple):
            return len(v) > 0
        if isinstance(v, PyDict):
            return len(v.d) > 0
        if isinstance(v, SymSeq):
            return v.n > 0
        if isinstance(v, (Obj, Closure)):
            return True
        raise Unsupported(f"truth value of {v!r}")

    def decide(self, cond, st):
        """python bool for a condition met *inside* an expression (restarts the statement when symbolic)."""
        if isinstance(cond, bool):
            return cond
        sc = z3.simplify(cond)
        if z3.is_true(sc):
            return True
        if z3.is_false(sc):
            return False
        for (c, val) in st.decisions:
            if c.eq(cond):
                return val
        raise _Fork(cond)

    # ------------------------------------------------------------------ expressions
    def ev(self, e, st):
        m = getattr(self, "ev_" + type(e).__name__, None)
        if m is None:
            raise Unsupported(f"expression {type(e).__name__} at line {getattr(e, 'lineno', '?')}")
        return m(e, st)

    def ev_Constant(self, e, st):
        return e.value

    def ev_Name(self, e, st):
        if e.id in st.env:
            return st.env[e.id]
        r = self.c.on_name(self, st, e.id)
        if r is not NotImplemented:
            return r
        if e.id in ("True", "False", "None"):
            return {"True": True, "False": False, "None": None}[e.id]
        return self.module_name(e.id, self.src, st)

    def module_name(self, name, src, st):
        if name in src.consts:
            sub = Engine.__new__(Engine)
            sub.__dict__.update(self.__dict__)
            sub.src = src
            tmp = State()
            tmp.pc = st.pc
            return sub.ev(src.consts[name], tmp)
        if name in src.funcs:
            return Closure(src.funcs[name], None, src)
        if name in src.classes:
            return Abstract("class", name=name, src=src)
        r = src.resolve_import(name)
        if r is not None:
            return self.module_name(r[1], r[0], st)
        if name in src.imports:
            level, module, orig = src.imports[name]
            if orig is None:
                return Abstract("module", name=module or name, alias=name)
            return Abstract("libfunc", name=f"{module}.{orig}" if level == 0 else f"<repo>.{module}.{orig}", alias=name)
        if name in _EXC_NAMES:
            return Abstract("exc_class", name=name)
        import builtins
        if hasattr(builtins, name):
            return Abstract("builtin", name=name)
        raise EngineError(f"unknown name {name}")

    def ev_Tuple(self, e, st):
        return tuple(self.ev(x, st) for x in e.elts)

    def ev_List(self, e, st):
        return PyList([self.ev(x, st) for x in e.elts])

    def ev_Set(self, e, st):
        return Abstract("concrete_iter", items=[self.ev(x, st) for x in e.elts], kind="set")

    def ev_Dict(self, e, st):
        d = {}
        for k, v in zip(e.keys, e.values):
            kk = self.ev(k, st)          # z3 keys are compared structurally (ExprRef.__eq__/__hash__)
            d[kk] = self.ev(v, st)
        return PyDict(d)

    def ev_Lambda(self, e, st):
        return Closure(e, st.env, self.src)

    def ev_JoinedStr(self, e, st):
        parts = []
        for v in e.values:
            if isinstance(v, ast.Constant):
                parts.append(v.value)
            else:
                parts.append(self.to_str(self.ev(v.value, st), st))
        return self.concat(parts)

    def to_str(self, v, st):
        if isinstance(v, str):
            return v
        if isinstance(v, (bool, int)):
            return str(v)
        if is_z3(v) and z3.is_string(v):
            return v
        if is_z3(v) and z3.is_int(v):
            return z3.IntToStr(v)
        r = self.c.on_call(self, st, None, "str", None, [v], {})
        if r is not NotImplemented:
            return r
        items = self._concrete_items(v)
        if items is not None and all(isinstance(x, (str, int, float, bool, type(None))) for x in items):
            return str(list(items)) if isinstance(v, PyList) else str(tuple(items))
        raise Unsupported(f"str({v!r})")

    def concat(self, parts):
        if all(isinstance(p, str) for p in parts):
            return "".join(parts)
        ps = [StringVal(p) if isinstance(p, str) else p for p in parts if not (isinstance(p, str) and p == "")]
        return z3.Concat(*ps) if len(ps) > 1 else ps[0]

    def ev_Attribute(self, e, st):
        dotted = _dotted(e)
        if dotted is not None:
            root = dotted.split(".")[0]
            if root not in st.env and root in self.src.imports and self.src.resolve_import(root) is None:
                mod = self.src.imports[root][1] or root
                full = mod + dotted[len(root):]
                r = self.c.on_attr(self, st, e, Abstract("module", name=mod, alias=root), dotted)
                if r is not NotImplemented:
                    return r
                if full in ("numpy.inf",):
                    return Ext.inf(1)
                if full in ("numpy.pi",):
                    return 3.141592653589793
                return Abstract("libfunc", name=full, alias=dotted)
        base = self.ev(e.value, st)
        r = self.c.on_attr(self, st, e, base, e.attr)
        if r is not NotImplemented:
            return r
        if isinstance(base, Abstract) and base.tag in ("module", "libfunc"):
            return Abstract("libfunc", name=f"{base.name}.{e.attr}", alias=f"{getattr(base, 'alias', base.name)}.{e.attr}")
        if isinstance(base, Obj):
            if e.attr in base.fields:
                return base.fields[e.attr]
            return Abstract("method", recv=base, name=e.attr)
        if isinstance(base, PyDict) and e.attr in base.d and getattr(base, "bunch", False):
            return base.d[e.attr]
        return Abstract("method", recv=base, name=e.attr)

    def ev_index(self, sl, st):
        if isinstance(sl, ast.Tuple):
            return tuple(self.ev_index(x, st) for x in sl.elts)
        if isinstance(sl, ast.Slice):
            return Abstract("slice", lo=self.ev(sl.lower, st) if sl.lower else None, hi=self.ev(sl.upper, st) if sl.upper else None,
                            step=self.ev(sl.step, st) if sl.step else None)
        return self.ev(sl, st)

    def ev_Subscript(self, e, st):
        base = self.ev(e.value, st)
        idx = self.ev_index(e.slice, st)
        r = self.c.on_subscript(self, st, e, base, idx)
        if r is not NotImplemented:
            return r
        if isinstance(base, PyDict):
            if is_z3(idx):
                raise Unsupported("symbolic dict key")
            if idx not in base.d:
                raise Unsupported(f"KeyError {idx!r} on concrete dict (would raise)")
            return base.d[idx]
        if isinstance(base, (PyList, tuple)):
            items = base.items if isinstance(base, PyList) else list(base)
            if isinstance(idx, int) and not isinstance(idx, bool):
                if not -len(items) <= idx < len(items):
                    self.oblige(st, "index_in_range", BoolVal(False), "bounds", e)
                    raise Unsupported("constant index out of range")
                return items[idx]
            if isinstance(idx, Abstract) and idx.tag == "slice" and all(
                    x is None or isinstance(x, int) for x in (idx.lo, idx.hi, idx.step)):
                out = items[slice(idx.lo, idx.hi, idx.step)]
                return PyList(out) if isinstance(base, PyList) else tuple(out)
            if is_z3(idx):
                n = len(items)
                self.oblige(st, "index_in_range", Or(*[idx == k for k in range(n)]) if n else BoolVal(False), "bounds", e)
                out = items[-1]
                for k in range(n - 2, -1, -1):
                    out = _ite(idx == k, items[k], out)
                return out
        if isinstance(base, SymSeq):
            if isinstance(idx, int) and idx < 0:
                i = base.n + idx
            else:
                i = lift(idx)
            self.oblige(st, "index_in_range", And(0 <= i, i < base.n), "bounds", e)
            return base.get(i)
        raise Unsupported(f"subscript of {base!r} at line {e.lineno}")

    def ev_UnaryOp(self, e, st):
        v = self.ev(e.operand, st)
        if isinstance(e.op, ast.Not):
            t = self.truth(v, st)
            return (not t) if isinstance(t, bool) else Not(t)
        if isinstance(e.op, ast.USub):
            if isinstance(v, Ext):
                return Ext(v.ninf, v.pinf, -v.val)
            r = self.c.on_binop(self, st, e, "neg", v, None)
            if r is not NotImplemented:
                return r
            return -v
        if isinstance(e.op, ast.UAdd):
            return v
        raise Unsupported("unary op")

    def ev_BinOp(self, e, st):
        return self.binop(e, e.op, self.ev(e.left, st), self.ev(e.right, st), st)

    def binop(self, node, op, a, b, st):
        r = self.c.on_binop(self, st, node, type(op).__name__, a, b)
        if r is not NotImplemented:
            return r
        if isinstance(op, ast.Add):
            if isinstance(a, str) or isinstance(b, str) or (is_z3(a) and z3.is_string(a)) or (is_z3(b) and z3.is_string(b)):
                return self.concat([a, b])
            if isinstance(a, PyList) and isinstance(b, PyList):
                return PyList(a.items + b.items)
            if isinstance(a, tuple) and isinstance(b, tuple):
                return a + b
        if isinstance(op, (ast.BitXor, ast.BitAnd, ast.BitOr)) and all(isinstance(x, bool) or (is_z3(x) and z3.is_bool(x)) for x in (a, b)):
            if isinstance(a, bool) and isinstance(b, bool):
                return {ast.BitXor: a ^ b, ast.BitAnd: a & b, ast.BitOr: a | b}[type(op)]
            za, zb = lift(a), lift(b)
            return {ast.BitXor: z3.Xor(za, zb), ast.BitAnd: And(za, zb), ast.BitOr: Or(za, zb)}[type(op)]
        if isinstance(a, Ext) or isinstance(b, Ext):
            a = a if isinstance(a, Ext) else Ext.fin(a)
            b = b if isinstance(b, Ext) else Ext.fin(b)
            if isinstance(op, ast.Add):
                self.oblige(st, "no_inf_minus_inf", Not(Or(And(a.pinf, b.ninf), And(a.ninf, b.pinf))), "arith", node)
                return Ext(Or(a.pinf, b.pinf), Or(a.ninf, b.ninf), a.val + b.val)
            if isinstance(op, ast.Sub):
                self.oblige(st, "no_inf_minus_inf", Not(Or(And(a.pinf, b.pinf), And(a.ninf, b.ninf))), "arith", node)
                return Ext(Or(a.pinf, b.ninf), Or(a.ninf, b.pinf), a.val - b.val)
            if isinstance(op, ast.Div):
                self.oblige(st, "finite_nonzero_divisor", And(b.is_fin(), b.val != 0), "arith", node)
                pos = b.val > 0
                return Ext(If(pos, a.pinf, a.ninf), If(pos, a.ninf, a.pinf), a.val / b.val)
            if isinstance(op, ast.Mult):
                # inf * positive finite constant (the only shape that occurs: np.inf * 0.8)
                for x, y in ((a, b), (b, a)):
                    sy = z3.simplify(y.val) if is_z3(y.val) else None
                    if z3.is_false(z3.simplify(y.pinf)) and z3.is_false(z3.simplify(y.ninf)) and sy is not None and z3.is_rational_value(sy) and sy.as_fraction() > 0:
                        return Ext(x.pinf, x.ninf, x.val * y.val)
            raise Unsupported("extended-real operation")
        if all(isinstance(x, (int, float)) and not isinstance(x, bool) for x in (a, b)) or \
                all(isinstance(x, (int, float, bool)) for x in (a, b)):
            try:
                return {ast.Add: lambda: a + b, ast.Sub: lambda: a - b, ast.Mult: lambda: a * b, ast.Div: lambda: a / b,
                        ast.FloorDiv: lambda: a // b, ast.Mod: lambda: a % b, ast.Pow: lambda: a ** b}[type(op)]()
            except ZeroDivisionError:
                self.oblige(st, "no_division_by_zero", BoolVal(False), "arith", node)
                raise Unsupported("constant division by zero")
        if isinstance(a, str) and isinstance(op, ast.Mod):
            return fresh("formatted", StringSort())          # %-formatted message: an unspecified string
        za, zb = lift(a), lift(b)
        if z3.is_bool(za):
            za = If(za, IntVal(1), IntVal(0))
        if z3.is_bool(zb):
            zb = If(zb, IntVal(1), IntVal(0))
        if isinstance(op, ast.Div):
            self.oblige(st, "no_division_by_zero", zb != 0, "arith", node)
            return to_real(za) / to_real(zb)
        if isinstance(op, ast.FloorDiv):
            if z3.is_int(za) and z3.is_int(zb):
                self.oblige(st, "no_division_by_zero", zb != 0, "arith", node)
                q = za / zb                       # z3: a = b*q + r with 0 <= r < |b|; python floors
                return If(Or(zb > 0, za % zb == 0), q, q - 1)
            raise Unsupported("real floor division")
        if z3.is_real(za) != z3.is_real(zb):
            za, zb = to_real(za), to_real(zb)
        if isinstance(op, ast.Add):
            return za + zb
        if isinstance(op, ast.Sub):
            return za - zb
        if isinstance(op, ast.Mult):
            return za * zb
        if isinstance(op, ast.Mod) and z3.is_int(za) and z3.is_int(zb):
            self.oblige(st, "no_division_by_zero", zb != 0, "arith", node)
            r = za % zb                       # z3 remainder is non-negative; python's has the sign of the divisor
            return If(Or(zb > 0, r == 0), r, r + zb)
        if isinstance(op, ast.Pow) and isinstance(b, int) and 0 <= b <= 4:
            out = lift(1)
            for _ in range(b):
                out = out * za
            return out
        raise Unsupported(f"binary operator {type(op).__name__}")

    def ev_BoolOp(self, e, st):
        is_and = isinstance(e.op, ast.And)
        acc, guards = [], 0
        try:
            for i, sub in enumerate(e.values):
                v = self.ev(sub, st)
                last = i == len(e.values) - 1
                t = self.truth(v, st)
                if not isinstance(t, bool) and not (is_z3(v) and z3.is_bool(v)):
                    # `a or b` / `a and b` in VALUE position with a non-boolean operand of symbolic truth: python returns the operand itself
                    if acc:
                        raise Unsupported("and/or mixing symbolic booleans with non-boolean values")
                    if last:
                        return v
                    t = self.decide(t, st)
                if isinstance(t, bool):
                    if (is_and and not t) or (not is_and and t):
                        # short circuit: python returns v itself; in boolean positions only its truth matters
                        if acc:
                            return (And(*acc, BoolVal(False)) if is_and else Or(*acc, BoolVal(True)))
                        return v
                    if last and not acc:
                        return v
                    continue
                acc.append(t)
                if not last:
                    st.pc.append(t if is_and else Not(t))      # later operands are evaluated only under this guard
                    guards += 1
            if not acc:
                return is_and
            return And(*acc) if is_and else Or(*acc)
        finally:
            if guards:
                del st.pc[-guards:]

    def ev_IfExp(self, e, st):
        c = self.truth(self.ev(e.test, st), st)
        if isinstance(c, bool):
            return self.ev(e.body if c else e.orelse, st)
        st.pc.append(c)
        try:
            a = self.ev(e.body, st)
        finally:
            st.pc.pop()
        st.pc.append(Not(c))
        try:
            b = self.ev(e.orelse, st)
        finally:
            st.pc.pop()
        try:
            return _ite(c, a, b)
        except Unsupported:
            return self.ev(e.body if self.decide(c, st) else e.orelse, st)

    def ev_Compare(self, e, st):
        left = self.ev(e.left, st)
        res = []
        for op, rn in zip(e.ops, e.comparators):
            right = self.ev(rn, st)
            res.append(self.compare(e, op, left, right, st))
            left = right
        if len(res) == 1:
            return res[0]
        if all(isinstance(r, bool) for r in res):
            return all(res)
        return And(*[BoolVal(r) if isinstance(r, bool) else r for r in res])

    def compare(self, node, op, a, b, st):
        r = self.c.on_compare(self, st, node, type(op).__name__, a, b)
        if r is not NotImplemented:
            return r
        if isinstance(op, (ast.Is, ast.IsNot)):
            if a is None or b is None:
                other = b if a is None else a
                if isinstance(other, Abstract) and hasattr(other, "is_none"):
                    res = other.is_none
                    return res if isinstance(op, ast.Is) else (Not(res) if is_z3(res) else not res)
                res = other is None
            elif isinstance(a, bool) or isinstance(b, bool):
                res = self.compare(node, ast.Eq(), a, b, st)
                if is_z3(res):
                    return res if isinstance(op, ast.Is) else Not(res)
            else:
                res = a is b
            return res if isinstance(op, ast.Is) else (not res)
        if isinstance(op, (ast.In, ast.NotIn)):
            items = None
            if isinstance(b, (PyList, tuple)):
                items = b.items if isinstance(b, PyList) else list(b)
            elif isinstance(b, PyDict):
                items = list(b.d.keys())
            elif isinstance(b, Abstract) and b.tag == "concrete_iter":
                items = list(b.items)
            if items is None:
                raise Unsupported(f"'in' on {b!r}")
            eqs = [self.compare(node, ast.Eq(), a, x, st) for x in items]
            if all(isinstance(x, bool) for x in eqs):
                res = any(eqs)
                return res if isinstance(op, ast.In) else (not res)
            res = Or(*[BoolVal(x) if isinstance(x, bool) else x for x in eqs])
            return res if isinstance(op, ast.In) else Not(res)
        if isinstance(a, Ext) or isinstance(b, Ext):
            a = a if isinstance(a, Ext) else Ext.fin(a)
            b = b if isinstance(b, Ext) else Ext.fin(b)
            return {ast.Eq: lambda: a.eq(b), ast.NotEq: lambda: Not(a.eq(b)), ast.Lt: lambda: a.lt(b), ast.LtE: lambda: a.le(b),
                    ast.Gt: lambda: b.lt(a), ast.GtE: lambda: b.le(a)}[type(op)]()
        if isinstance(op, (ast.Eq, ast.NotEq)) and any(isinstance(x, Abstract) and x.tag == "concrete_iter" and getattr(x, "kind", "") in ("set", "frozenset", "keys") for x in (a, b)):
            ia, ib = self._concrete_items(a), self._concrete_items(b)
            if ia is not None and ib is not None and not any(is_z3(x) for x in ia + ib):
                res = set(ia) == set(ib)
                return res if isinstance(op, ast.Eq) else (not res)
            raise Unsupported("set comparison with symbolic members")
        if isinstance(a, PyList) and isinstance(b, PyList) and isinstance(op, (ast.Eq, ast.NotEq)):
            if len(a.items) != len(b.items):
                return isinstance(op, ast.NotEq)
            eqs = [self.compare(node, ast.Eq(), x, y, st) for x, y in zip(a.items, b.items)]
            res = all(eqs) if all(isinstance(x, bool) for x in eqs) else And(*[BoolVal(x) if isinstance(x, bool) else x for x in eqs])
            return res if isinstance(op, ast.Eq) else (Not(res) if is_z3(res) else not res)
        if isinstance(a, SymSeq) and isinstance(b, PyList) and not b.items and isinstance(op, (ast.Eq, ast.NotEq)):
            return (a.n == 0) if isinstance(op, ast.Eq) else (a.n != 0)
        if (a is None or b is None) and isinstance(op, (ast.Eq, ast.NotEq)):
            res = a is None and b is None
            if not res and (is_z3(a) or is_z3(b) or isinstance(a, (int, float, str, PyList, tuple, Obj)) or isinstance(b, (int, float, str, PyList, tuple, Obj))):
                return res if isinstance(op, ast.Eq) else (not res)
        if not is_z3(a) and not is_z3(b):
            if isinstance(a, (int, float, str, bool, type(None))) and isinstance(b, (int, float, str, bool, type(None))):
                try:
                    return _CMP[type(op)](a, b)
                except TypeError:
                    raise Unsupported("comparison of incompatible constants")
            raise Unsupported(f"comparison {a!r} {type(op).__name__} {b!r}")
        za, zb = lift(a), lift(b)
        if z3.is_string(za) != z3.is_string(zb):
            if isinstance(op, ast.Eq):
                return False
            if isinstance(op, ast.NotEq):
                return True
            raise Unsupported("ordering of str and number")
        if z3.is_bool(za) and not z3.is_bool(zb):
            za = If(za, IntVal(1), IntVal(0))
        if z3.is_bool(zb) and not z3.is_bool(za):
            zb = If(zb, IntVal(1), IntVal(0))
        if z3.is_real(za) != z3.is_real(zb) and not z3.is_string(za) and not z3.is_bool(za):
            za, zb = to_real(za), to_real(zb)
        if z3.is_string(za) and not isinstance(op, (ast.Eq, ast.NotEq)):
            raise Unsupported("string ordering")
        return _CMP[type(op)](za, zb)

    def ev_ListComp(self, e, st):
        if len(e.generators) != 1 or e.generators[0].ifs and False:
            raise Unsupported("nested comprehension")
        g = e.generators[0]
        it = self.ev(g.iter, st)
        items = self._concrete_items(it)
        if items is None:
            r = self.c.on_call(self, st, e, "$listcomp", it, [e], {})
            if r is not NotImplemented:
                return r
            raise Unsupported("comprehension over symbolic iterable")
        out = []
        saved = dict(st.env)
        for item in items:
            self.assign(g.target, item, st)
            keep = True
            for cond in g.ifs:
                keep = keep and self.decide(self.truth(self.ev(cond, st), st), st)
            if keep:
                out.append(self.ev(e.elt, st))
        for k in list(st.env):
            if k not in saved:
                del st.env[k]
        st.env.update({k: v for k, v in saved.items()})
        return PyList(out)

    ev_GeneratorExp = ev_ListComp

    def ev_DictComp(self, e, st):
        """{k: v for ... in <concrete iterable>}: evaluated entry by entry in iteration order (dicts keep insertion order)"""
        if len(e.generators) != 1:
            raise Unsupported("nested comprehension")
        g = e.generators[0]
        items = self._concrete_items(self.ev(g.iter, st))
        if items is None:
            raise Unsupported("dict comprehension over symbolic iterable")
        out = PyDict()
        saved = dict(st.env)
        for item in items:
            self.assign(g.target, item, st)
            if all(self.decide(self.truth(self.ev(cond, st), st), st) for cond in g.ifs):
                k = self.ev(e.key, st)
                if is_z3(k):
                    raise Unsupported("symbolic dict key")
                out.d[k] = self.ev(e.value, st)
        for k in list(st.env):
            if k not in saved:
                del st.env[k]
        st.env.update(saved)
        return out

    # ------------------------------------------------------------------ calls
    def ev_Call(self, e, st):
        fv = self.ev(e.func, st)
        args = []
        for a in e.args:
            if isinstance(a, ast.Starred):
                v = self.ev(a.value, st)
                items = self._concrete_items(v)
                if items is None:
                    raise Unsupported("*args of symbolic length")
                args.extend(items)
            else:
                args.append(self.ev(a, st))
        kwargs = {}
        for kw in e.keywords:
            if kw.arg is None:
                v = self.ev(kw.value, st)
                if isinstance(v, PyDict):
                    kwargs.update(v.d)
                elif isinstance(v, Abstract):
                    kwargs["**"] = v              # an opaque keyword bundle forwarded as a whole
                else:
                    raise Unsupported("**kwargs of non-concrete dict")
            else:
                kwargs[kw.arg] = self.ev(kw.value, st)
        return self.call(fv, args, kwargs, st, e)

    def call(self, fv, args, kwargs, st, node):
        name, recv = None, None
        if isinstance(fv, Abstract):
            if fv.tag == "libfunc":
                name = fv.name
            elif fv.tag == "method":
                name, recv = fv.name, fv.recv
            elif fv.tag in ("builtin", "exc_class", "class"):
                name = fv.name
        elif isinstance(fv, Closure) and isinstance(fv.node, ast.FunctionDef):
            name = fv.node.name
        if name is not None and not (name == "isinstance" and isinstance(fv, Abstract) and fv.tag == "builtin"):
            r = self.c.on_call(self, st, node, name, recv, args, kwargs)
            if r is not NotImplemented:
                return r
        if isinstance(fv, Closure):
            return self.inline(fv, args, kwargs, st, node)
        if isinstance(fv, Abstract):
            if fv.tag == "exc_class":
                return Exc(fv.name, args)
            if fv.tag == "builtin":
                return self.builtin(fv.name, args, kwargs, st, node)
            if fv.tag == "method":
                return self.method(recv, fv.name, args, kwargs, st, node)
            if fv.tag == "class" and (fv.name.endswith("Error") or fv.name.endswith("Exception")):
                return Exc(fv.name, args)
            if fv.tag == "libfunc":
                return self.libcall(fv.name, args, kwargs, st, node)
        if isinstance(fv, Abstract):
            r = self.c.on_call(self, st, node, "$call", fv, args, kwargs)
            if r is not NotImplemented:
                return r
        raise Unsupported(f"call of {fv!r} at line {getattr(node, 'lineno', '?')}")

    def libcall(self, name, args, kwargs, st, node):
        if name in ("numpy.isscalar",):
            v = args[0]
            return not isinstance(v, (PyList, tuple, PyDict, SymSeq, Abstract, Obj))
        if name in ("math.ceil", "numpy.ceil") and len(args) == 1:
            v = lift(args[0])
            if z3.is_int(v):
                return v
            r = fresh("ceil")
            st.assume(z3.ToReal(r) >= v, z3.ToReal(r) < v + 1)
            return r
        if name in ("math.isclose", "numpy.isclose") and len(args) == 2:
            # dependency contract (CPython): |a-b| <= max(rel_tol*max(|a|,|b|), abs_tol); infinities are close only to themselves
            rel = kwargs.get("rel_tol", kwargs.get("rtol", 1e-9 if name.startswith("math") else 1e-5))
            ab = kwargs.get("abs_tol", kwargs.get("atol", 0.0 if name.startswith("math") else 1e-8))
            if not all(isinstance(x, (int, float)) for x in (rel, ab)):
                raise Unsupported("isclose with symbolic tolerances")
            a, b = (x if isinstance(x, Ext) else Ext.fin(x) for x in args)
            absv = lambda t: If(t >= 0, t, -t)
            mx = If(absv(a.val) >= absv(b.val), absv(a.val), absv(b.val))
            tol = If(RealVal(repr(float(rel))) * mx >= RealVal(repr(float(ab))), RealVal(repr(float(rel))) * mx, RealVal(repr(float(ab))))
            if name.startswith("numpy"):
                tol = RealVal(repr(float(ab))) + RealVal(repr(float(rel))) * absv(b.val)
            return If(And(a.is_fin(), b.is_fin()), absv(a.val - b.val) <= tol, Or(And(a.pinf, b.pinf), And(a.ninf, b.ninf)))
        if name == "numpy.float64" and len(args) == 1 and not kwargs and (isinstance(args[0], (Ext, int, float)) or (is_z3(args[0]) and z3.is_arith(args[0]))):
            # dependency contract (numpy): float64(t) of a double t (incl. +-inf) is the same number.  That the result is a "strong" scalar, i.e. is not
            # rounded to the dtype of an array it is compared with (NEP 50), is machine arithmetic outside the real-number model.
            return args[0]
        if name in ("sklearn.utils.Bunch",):
            d = PyDict(kwargs)
            d.bunch = True
            return d
        raise Unsupported(f"library call {name} without a dependency contract (line {getattr(node, 'lineno', '?')})")

    def inline(self, clo, args, kwargs, st, node):
        if self.depth >= self.c.inline_depth:
            raise Unsupported("inline depth exceeded")
        fn = clo.node
        a = fn.args
        if a.vararg or a.kwarg:
            raise Unsupported("inlining *args/**kwargs function")
        env = dict(clo.env) if clo.env is not None else {}
        params = [x.arg for x in a.posonlyargs + a.args]
        defaults = dict(zip(params[len(params) - len(a.defaults):], a.defaults))
        if len(args) > len(params):
            raise Unsupported("too many positional arguments")
        bound = dict(zip(params, args))
        for k, v in kwargs.items():
            bound[k] = v
        for p in params:
            if p not in bound:
                if p not in defaults:
                    raise Unsupported(f"missing argument {p}")
                bound[p] = self.ev(defaults[p], st)
        for kw, d in zip(a.kwonlyargs, a.kw_defaults):
            if kw.arg not in bound:
                if d is None:
                    raise Unsupported(f"missing keyword argument {kw.arg}")
                bound[kw.arg] = self.ev(d, st)
        env.update(bound)
        if isinstance(fn, ast.Lambda):
            saved, st.env = st.env, env
            try:
                return self.ev(fn.body, st)
            finally:
                st.env = saved
        # statement bodies: only straight-line / branching helpers that end in a single return per path are inlined
        sub = State()
        sub.env, sub.pc, sub.decisions, sub.ghost, sub.trail = env, st.pc, st.decisions, st.ghost, st.trail
        sub.cattrs = getattr(st, "cattrs", None)
        saved_src, saved_fn, saved_ids = self.src, self.fn, self.loop_id
        if clo.module is not None:
            self.src = clo.module
        self.loop_id = {}
        self.depth += 1
        try:
            outs = self.block(fn.body, sub)
        finally:
            self.depth -= 1
            self.src, self.fn, self.loop_id = saved_src, saved_fn, saved_ids
        if len(outs) != 1:
            raise Unsupported(f"inlined helper {fn.name} has {len(outs)} exits (needs its own contract)")
        s1, status = outs[0]
        st.pc = s1.pc
        st.cattrs = getattr(s1, "cattrs", None)
        if status == "fall":
            return None
        if status[0] == "return":
            return status[1]
        if status[0] == "raise":
            raise PyRaise(status[1])
        raise Unsupported(f"inlined helper {fn.name}: exit {status}")

    def summarize_closure(self, clo, args, st):
        """value of clo(*args) as ONE expression (nested If over the closure's own branch conditions), for element-wise application of a
        small function to a symbolic element.  The closure body is executed with ordinary forking on a scratch copy of the state."""
        fn = clo.node
        params = [x.arg for x in fn.args.posonlyargs + fn.args.args]
        if len(params) != len(args) or fn.args.vararg or fn.args.kwarg or fn.args.kwonlyargs:
            raise Unsupported("closure signature")
        sub = st.clone()
        base = len(sub.pc)
        env = dict(clo.env) if clo.env is not None else {}
        env.update(dict(zip(params, args)))
        sub.env = env
        saved = (self.src, self.loop_id, self.depth)
        if clo.module is not None:
            self.src = clo.module
        self.loop_id, self.depth = {}, 0
        try:
            if isinstance(fn, ast.Lambda):
                outs = [(s2, ("return", v)) for (s2, v) in self.eval_forking(fn.body, sub)]
            else:
                outs = self.block(fn.body, sub)
        finally:
            self.src, self.loop_id, self.depth = saved
        result = None
        for (s2, status) in reversed(outs):
            if isinstance(status, tuple) and status[0] == "return" and not isinstance(status[1], PyRaise):
                val = status[1]
            else:
                raise Unsupported("element-wise function that raises or falls through")
            cond = And(*s2.pc[base:]) if len(s2.pc) > base else BoolVal(True)
            result = val if result is None else _ite(cond, val, result)
        if result is None:
            raise Unsupported("element-wise function without a result")
        return result

    def builtin(self, name, args, kwargs, st, node):
        if name == "len":
            v = args[0]
            if isinstance(v, PyList):
                return len(v.items)
            if isinstance(v, (tuple, str)):
                return len(v)
            if isinstance(v, PyDict):
                return len(v.d)
            if isinstance(v, SymSeq):
                return v.n
            if is_z3(v) and z3.is_string(v):
                return z3.Length(v)
        if name == "range":
            vals = [a for a in args]
            if all(isinstance(a, int) for a in vals):
                return range(*vals)
            lo, hi = (0, vals[0]) if len(vals) == 1 else (vals[0], vals[1])
            if len(vals) == 3:
                raise Unsupported("range with step")
            return Abstract("range", lo=lift(lo), hi=lift(hi))
        if name in ("min", "max") and len(args) >= 2:
            out = args[0]
            for b in args[1:]:
                c = self.compare(node, ast.Lt() if name == "min" else ast.Gt(), b, out, st)
                out = (b if c else out) if isinstance(c, bool) else _ite(c, b, out)
            return out
        if name in ("min", "max") and len(args) == 1:
            items = self._concrete_items(args[0])
            if items:
                return self.builtin(name, items, {}, st, node) if len(items) > 1 else items[0]
        if name == "abs":
            v = args[0]
            if isinstance(v, (int, float)):
                return abs(v)
            return If(v >= 0, v, -v)
        if name == "float":
            v = args[0]
            if isinstance(v, str) and v in ("inf", "-inf"):
                return Ext.inf(1 if v == "inf" else -1)
            if isinstance(v, (int, float)):
                return float(v)
            return to_real(v)
        if name == "int" and isinstance(args[0], (int, bool)):
            return int(args[0])
        if name == "bool":
            return self.truth(args[0], st)
        if name == "str":
            return self.to_str(args[0], st)
        if name == "isinstance":
            return self.isinstance_(args[0], node.args[1], st)
        if name == "sum":
            items = self._concrete_items(args[0])
            if items is not None:
                out = args[1] if len(args) > 1 else 0
                for x in items:
                    out = self.binop(node, ast.Add(), out, x, st)
                return out
        if name in ("frozenset", "set"):
            items = self._concrete_items(args[0]) if args else []
            if items is not None:
                return Abstract("concrete_iter", items=list(items), kind=name)
        if name == "reversed":
            items = self._concrete_items(args[0])
            if items is not None:
                return Abstract("concrete_iter", items=list(reversed(items)), kind="reversed")
        if name == "list" and args and isinstance(args[0], SymSeq):
            v = args[0]
            return SymSeq(v.arr, v.n, list(v.over), v.wrap, v.unwrap, v.tag)
        if name == "sorted" and len(args) == 1 and not kwargs:
            items = self._concrete_items(args[0])
            if items is not None and all(isinstance(x, (str, int, float)) and not isinstance(x, bool) for x in items) and len({type(x) is str for x in items}) <= 1:
                return PyList(sorted(items))
            if items is not None and all(isinstance(x, tuple) and x and isinstance(x[0], str) for x in items) and len({x[0] for x in items}) == len(items):
                return PyList(sorted(items, key=lambda t: t[0]))          # (key, value) pairs with distinct string keys
        if name in ("list", "tuple"):
            if not args:
                return PyList() if name == "list" else ()
            items = self._concrete_items(args[0])
            if items is not None:
                return PyList(items) if name == "list" else tuple(items)
        if name == "enumerate":
            items = self._concrete_items(args[0])
            if items is not None:
                return PyList([(i, x) for i, x in enumerate(items)])
        if name == "zip":
            cols = [self._concrete_items(a) for a in args]
            if all(c is not None for c in cols):
                return PyList([tuple(r) for r in zip(*cols)])
        if name == "slice":
            a3 = list(args) + [None] * (3 - len(args))
            if len(args) == 1:
                a3 = [None, args[0], None]
            return Abstract("slice", lo=a3[0], hi=a3[1], step=a3[2])
        if name == "dict" and not args:
            return PyDict(kwargs)
        if name == "hasattr" and isinstance(args[0], Obj) and isinstance(args[1], str):
            return args[1] in args[0].fields
        if name == "callable":
            return isinstance(args[0], Closure) or (isinstance(args[0], Abstract) and getattr(args[0], "callable", False))
        raise Unsupported(f"builtin {name}({', '.join(type(a).__name__ for a in args)})")

    def isinstance_(self, v, type_node, st):
        names = [ast.unparse(x) for x in (type_node.elts if isinstance(type_node, ast.Tuple) else [type_node])]
        r = self.c.on_call(self, st, None, "isinstance", None, [v, names], {})
        if r is not NotImplemented:
            return r

        def one(nm):
            if isinstance(v, bool):
                return nm in ("bool", "int")
            if isinstance(v, int):
                return nm in ("int", "numbers.Integral", "numbers.Number")
            if isinstance(v, float):
                return nm in ("float", "numbers.Number")
            if isinstance(v, str):
                return nm == "str"
            if isinstance(v, PyList):
                return nm == "list"
            if isinstance(v, tuple):
                return nm == "tuple"
            if isinstance(v, PyDict):
                return nm == "dict"
            if v is None:
                return False
            if is_z3(v):
                if z3.is_bool(v):
                    return nm in ("bool", "int")
                if z3.is_int(v):
                    return nm in ("int", "numbers.Integral", "numbers.Number")
                if z3.is_real(v):
                    return nm in ("float", "numbers.Number")
                if z3.is_string(v):
                    return nm == "str"
            if isinstance(v, Obj):
                return nm == v.cls or nm in getattr(v, "bases", ())
            raise Unsupported(f"isinstance({v!r}, {nm})")
        return any(one(n) for n in names)

    def method(self, recv, name, args, kwargs, st, node):
        if isinstance(recv, PyList):
            if name == "append":
                recv.items.append(args[0])
                return None
            if name == "pop" and not args:
                if not recv.items:
                    raise Unsupported("pop from empty list")
                return recv.items.pop()
            if name == "copy":
                return PyList(recv.items)
            if name == "extend":
                items = self._concrete_items(args[0])
                if items is not None:
                    recv.items.extend(items)
                    return None
            if name == "index":
                for k, x in enumerate(recv.items):
                    if self.decide(lift_bool(self.compare(node, ast.Eq(), x, args[0], st)), st):
                        return k
                return self._raise_in_expr("ValueError")
        if isinstance(recv, SymSeq):
            if name == "append":
                recv.over.append((recv.n, recv.unwrap(args[0])))
                recv.n = recv.n + 1
                return None
            if name == "pop" and not args:
                self.oblige(st, "pop_from_nonempty", recv.n >= 1, "bounds", node)
                v = recv.get(recv.n - 1)
                recv.n = recv.n - 1
                return v
        if isinstance(recv, PyDict):
            if name == "get":
                if is_z3(args[0]):
                    raise Unsupported("symbolic dict key")
                return recv.d.get(args[0], args[1] if len(args) > 1 else None)
            if name == "items":
                return PyList([(k, v) for k, v in recv.d.items()])
            if name == "keys":
                return Abstract("concrete_iter", items=list(recv.d.keys()), kind="keys")
            if name == "values":
                return PyList(list(recv.d.values()))
            if name == "copy":
                return PyDict(recv.d)
            if name in ("pop", "setdefault") and args and not is_z3(args[0]):          # mutating methods (the dict object itself changes)
                if name == "pop":
                    if args[0] in recv.d:
                        return recv.d.pop(args[0])
                    if len(args) > 1:
                        return args[1]
                    raise PyRaise(Exc("KeyError", (args[0],)))
                return recv.d.setdefault(args[0], args[1] if len(args) > 1 else None)
            if name == "update" and len(args) == 1 and isinstance(args[0], PyDict) and not kwargs:
                recv.d.update(args[0].d)
                return None
            if name == "clear" and not args:
                recv.d.clear()
                return None
        if isinstance(recv, str):
            if name == "format":
                if kwargs:
                    raise Unsupported("format with keywords")
                import string
                parts, auto = [], 0
                for lit, field, spec, conv in string.Formatter().parse(recv):
                    parts.append(lit)
                    if field is None:
                        continue
                    if spec or conv:
                        raise Unsupported("format spec")
                    idx = auto if field == "" else int(field)
                    auto += 1
                    parts.append(self.to_str(args[idx], st))
                return self.concat(parts)
            if name == "join":
                items = self._concrete_items(args[0])
                if items is not None:
                    parts = []
                    for k, x in enumerate(items):
                        if k:
                            parts.append(recv)
                        parts.append(x)
                    return self.concat(parts) if parts else ""
            if all(isinstance(a, (str, int)) for a in args):
                return getattr(recv, name)(*args)
        if isinstance(recv, Abstract) and recv.tag == "concrete_iter" and name == "add" and getattr(recv, "kind", "") == "set":
            recv.items = list(recv.items) + [args[0]]      # (sets of symbolic members keep every added member; membership is decided by equality)
            return None
        if isinstance(recv, Abstract) and recv.tag == "concrete_iter" and name in ("issuperset", "issubset"):
            other = self._concrete_items(args[0])
            if other is not None:
                sup, sub = (recv.items, other) if name == "issuperset" else (other, recv.items)
                res = [self.compare(node, ast.In(), x, PyList(sup), st) for x in sub]
                if all(isinstance(r, bool) for r in res):
                    return all(res)
                return And(*[BoolVal(r) if isinstance(r, bool) else r for r in res])
        if isinstance(recv, Obj):
            raise Unsupported(f"method {recv.cls}.{name} needs a contract")
        raise Unsupported(f"method {name} on {recv!r} (line {getattr(node, 'lineno', '?')})")

    def _raise_in_expr(self, typ):
        raise Unsupported(f"exception {typ} inside an expression")


def lift_bool(v):
    return BoolVal(v) if isinstance(v, bool) else v


def _ite(c, a, b):
    if isinstance(c, bool):
        return a if c else b
    if a is b:
        return a
    if isinstance(a, Ext) or isinstance(b, Ext):
        a = a if isinstance(a, Ext) else Ext.fin(a)
        b = b if isinstance(b, Ext) else Ext.fin(b)
        return Ext(If(c, a.pinf, b.pinf), If(c, a.ninf, b.ninf), If(c, a.val, b.val))
    if isinstance(a, tuple) and isinstance(b, tuple) and len(a) == len(b):
        return tuple(_ite(c, x, y) for x, y in zip(a, b))
    if a is None or b is None or isinstance(a, (PyList, PyDict, Obj, SymSeq, Abstract, Closure)) or \
            isinstance(b, (PyList, PyDict, Obj, SymSeq, Abstract, Closure)):
        raise Unsupported("merge of non-scalar values")
    za, zb = lift(a), lift(b)
    if za.sort() != zb.sort():
        if z3.is_string(za) or z3.is_string(zb):
            raise Unsupported("merge of str and number")
        if z3.is_bool(za) or z3.is_bool(zb):
            raise Unsupported("merge of bool and number")
        za, zb = to_real(za), to_real(zb)
    return If(c, za, zb)


def _dotted(e):
    parts = []
    while isinstance(e, ast.Attribute):
        parts.append(e.attr)
        e = e.value
    if isinstance(e, ast.Name):
        parts.append(e.id)
        return ".".join(reversed(parts))
    return None


def _load(t):
    import copy
    n = copy.deepcopy(t)
    for x in ast.walk(n):
        if hasattr(x, "ctx"):
            x.ctx = ast.Load()
    return n
