"""Discharging obligations: z3 (E-matching profile for quantified VCs, default profile for quantifier-free ones),
then z3 default profile, then the cvc5 binary on the SMT-LIB dump for what z3 leaves unknown.

Verdicts: 'unsat' = discharged; 'sat' = refuted (model attached; definite only for quantifier-free queries, a *candidate*
otherwise); 'unknown' = undecided (never reported as a violation by itself).
"""
import os
import re
import subprocess
import tempfile
import time
from concurrent.futures import ProcessPoolExecutor
import multiprocessing as mp

import z3

EMATCH = {"auto_config": False, "smt.mbqi": False, "smt.relevancy": 0}


class Result:
    def __init__(self, name, status, backend, secs, model=None, quantified=False, reason=""):
        self.name, self.status, self.backend, self.secs = name, status, backend, secs
        self.model, self.quantified, self.reason = model or {}, quantified, reason

    def __repr__(self):
        return f"<{self.name}: {self.status} by {self.backend} in {self.secs:.2f}s>"


def _has_quant(text):
    return "(forall " in text or "(exists " in text


def to_smt2(hyps, goal):
    s = z3.Solver()
    for h in hyps:
        s.add(h)
    s.add(z3.Not(goal))
    return s.to_smt2()


def _model_dict(m):
    out = {}
    for d in m.decls():
        try:
            if d.arity() == 0:
                out[d.name()] = str(m[d])
            else:
                out[d.name()] = str(m[d].as_list())[:2000]
        except Exception:
            pass
    return out


def _z3_run(text, params, timeout_ms, rlimit):
    ctx = z3.Context()
    s = z3.Solver(ctx=ctx)
    for k, v in params.items():
        s.set(k, v)
    s.set("timeout", timeout_ms)
    if rlimit:
        s.set("rlimit", rlimit)
    s.from_string(text)
    r = s.check()
    if r == z3.unsat:
        return "unsat", {}, ""
    if r == z3.sat:
        return "sat", _model_dict(s.model()), ""
    return "unknown", {}, s.reason_unknown()


def _cvc5_run(text, timeout_ms, strings=False):
    if "(declare-datatypes" in text and False:
        return "unknown", "skipped"
    with tempfile.NamedTemporaryFile("w", suffix=".smt2", delete=False) as f:
        txt = text
        if "(set-logic" not in txt:
            txt = "(set-logic ALL)\n" + txt
        f.write(txt)
        path = f.name
    try:
        cmd = ["/usr/bin/cvc5", f"--tlimit={timeout_ms}"]
        if strings or "String" in text:
            cmd.append("--strings-exp")
        p = subprocess.run(cmd + [path], capture_output=True, text=True, timeout=timeout_ms / 1000 + 5)
        out = p.stdout.strip().splitlines()
        first = out[0] if out else ""
        if first in ("unsat", "sat", "unknown"):
            return first, p.stderr[:200]
        return "unknown", (p.stdout + p.stderr)[:200]
    except Exception as ex:        # timeout, parse error ... -> undecided
        return "unknown", repr(ex)[:200]
    finally:
        try:
            os.unlink(path)
        except OSError:
            pass


def solve_text(args):
    name, text, timeout_ms, rlimit, use_cvc5 = args
    t0 = time.time()
    quant = _has_quant(text)
    try:
        if quant:
            st, model, why = _z3_run(text, EMATCH, timeout_ms, rlimit)
            backend = "z3-ematch"
            if st == "unknown":
                st2, model2, why2 = _z3_run(text, {}, min(timeout_ms, 10000), 0)
                if st2 != "unknown":
                    st, model, why, backend = st2, model2, why2, "z3-default"
        else:
            st, model, why = _z3_run(text, {}, timeout_ms, rlimit)
            backend = "z3"
        if st == "unknown" and use_cvc5:
            st3, why3 = _cvc5_run(text, min(timeout_ms, 20000))
            if st3 == "unsat":
                st, backend, why = "unsat", "cvc5", ""
            elif st3 == "sat" and not quant:
                st, backend, why = "sat", "cvc5", "cvc5 model not extracted"
        return Result(name, st, backend, time.time() - t0, model, quant, why)
    except Exception as ex:
        return Result(name, "unknown", "z3", time.time() - t0, {}, quant, f"solver error: {ex!r}"[:300])


def discharge(obligations, axioms=(), timeout_ms=30000, rlimit=0, workers=None, use_cvc5=True):
    """obligations: iterable of core.Obligation; returns list of Result in the same order."""
    jobs = []
    for ob in obligations:
        jobs.append((ob.name, to_smt2(list(axioms) + list(ob.pc), ob.goal), timeout_ms, rlimit, use_cvc5))
    if not jobs:
        return []
    workers = workers or int(os.environ.get("VF_WORKERS", "0") or 0) or min(16, os.cpu_count() or 4)
    if len(jobs) <= 6 or workers == 1:
        return [solve_text(j) for j in jobs]
    with ProcessPoolExecutor(max_workers=workers, mp_context=mp.get_context("fork")) as ex:
        return list(ex.map(solve_text, jobs, chunksize=max(1, len(jobs) // (workers * 4))))


def prove(name, hyps, goal, timeout_ms=30000):
    """single lemma: returns Result"""
    return solve_text((name, to_smt2(hyps, goal), timeout_ms, 0, True))


_NUM = re.compile(r"^\(?\s*(-?)\s*\(?\s*/?\s*([0-9.]+)(?:\s+([0-9.]+))?\)?\s*\)?$")


def parse_number(s):
    """z3 model value string -> Fraction (handles '3', '-3', '1/2', '(- 1)', '(/ 1.0 2.0)', '(- (/ 1.0 2.0))', '0.5')."""
    from fractions import Fraction
    s = s.strip().rstrip("?")
    neg = False
    m = re.match(r"^\(-\s+(.*)\)$", s)
    if m:
        neg, s = True, m.group(1).strip()
    m = re.match(r"^\(/\s+([0-9.\-]+)\s+([0-9.\-]+)\)$", s)
    if m:
        v = Fraction(m.group(1)) / Fraction(m.group(2))
    elif "/" in s:
        a, b = s.split("/")
        v = Fraction(a.strip()) / Fraction(b.strip())
    else:
        v = Fraction(s)
    return -v if neg else v
