"""helpers to read values out of solver models (strings as printed by z3)."""
import re
from fractions import Fraction

from .solve import parse_number


def _find(m, name):
    if name in m:
        return m[name]
    for k, v in m.items():          # fresh constants are named name!N
        if k.split("!")[0] == name:
            return v
    return None


def model_bool(m, name, default=False):
    v = _find(m, name)
    return default if v is None else v.strip() == "True"


def model_real(m, name, default=0):
    v = _find(m, name)
    if v is None:
        return Fraction(default)
    try:
        return parse_number(v)
    except Exception:
        return Fraction(default)


def model_int(m, name, default=0):
    return int(model_real(m, name, default))


def model_str(m, name, default=""):
    v = _find(m, name)
    if v is None:
        return default
    v = v.strip()
    if v.startswith('"') and v.endswith('"'):
        v = v[1:-1]
    v = v.replace('""', '"')
    v = re.sub(r"\\u\{([0-9a-fA-F]+)\}", lambda mo: chr(int(mo.group(1), 16)), v)
    return v
