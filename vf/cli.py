"""./check <ID> [--tier quick|thorough] [--replay <file>]"""
import argparse
import importlib
import json
import os
import sys
import traceback

from .report import Report


def main(argv=None):
    ap = argparse.ArgumentParser()
    ap.add_argument("pid")
    ap.add_argument("--tier", default=os.environ.get("VERIF_TIER", "quick"), choices=["quick", "thorough"])
    ap.add_argument("--replay", default=None)
    ap.add_argument("--only", default=None, help="debug: run only the named part(s) of the check, comma separated")
    a = ap.parse_args(argv)
    seed = int(os.environ.get("VERIF_SEED", "0") or 0)
    try:
        mod = importlib.import_module(f"vf.props.{a.pid}")
    except ModuleNotFoundError:
        print(f"CHECKER-ERROR no check for {a.pid}", file=sys.stderr)
        return 3
    if a.replay:
        data = json.load(open(a.replay))
        if hasattr(mod, "replay"):
            return mod.replay(data)
        print(json.dumps(data, indent=1))
        return 0
    rep = Report(a.pid, a.tier, seed, level=getattr(mod, "LEVEL", "other"))
    rep.only = set(a.only.split(",")) if a.only else None
    try:
        mod.run(rep)
    except Exception:
        rep.error("check crashed: " + traceback.format_exc())
    return rep.finish()


if __name__ == "__main__":
    sys.exit(main())
