"""./check <ID> [--tier quick|thorough] [--replay <file>]"""
import argparse
import importlib
import json
import os
import sys
import traceback

from .report import Report


def main(argv=None):
    ap = argparse.ArgumentParser()
    ap.add_argument("pid")
    ap.add_argument("--tier", default=os.environ.get("VERIF_TIER", "quick"), choices=["quick", "thorough"])
    ap.add_argument("--replay", default=None)
    ap.add_argument("--only", default=None, help="debug: run only the named part(s) of the check, comma separated")
    a = ap.parse_args(argv)
    seed = int(os.environ.get("VERIF_SEED", "0") or 0)
    try:
        mod = importlib.import_module(f"vf.props.{a.pid}")
    except ModuleNotFoundError:
        print(f"CHECKER-ERROR no check for {a.pid}", file=sys.stderr)
        return 3
    replay_key = None
    if a.replay:
        # replay = re-run the check that produced the file (same tier and seed) on the current tree and report whether the same violation re-occurs
        data = json.load(open(a.replay))
        print("replaying", data.get("key"), "-", data.get("what"))
        print(json.dumps(data.get("replay"), indent=1)[:3000])
        replay_key, a.tier, seed = data.get("key"), data.get("tier", a.tier), int(data.get("seed", seed))
    rep = Report(a.pid, a.tier, seed, level=getattr(mod, "LEVEL", "other"))
    rep.replay_key = replay_key
    rep.only = set(a.only.split(",")) if a.only else None
    try:
        mod.run(rep)
    except Exception:
        rep.error("check crashed: " + traceback.format_exc())
    code = rep.finish()
    if replay_key is not None:
        again = any(v["key"] == replay_key for v in rep.violations)
        print(f"REPLAY {'reproduced' if again else 'not reproduced'}: {replay_key}")
        return 1 if again else 0
    return code


if __name__ == "__main__":
    sys.exit(main())
