import Mathlib

/-! Reduction identity (C07): with gamma_j(h) = -(1/n) * Σ_i U j i * (d i * h i + u0 i) and w i = d i * Σ_j lam j * U j i,
    lam · gamma(h) - lam · gamma(h') = -(1/n) * Σ_i w i * (h i - h' i).  The heart is an exchange of two finite sums. -/
open Finset

theorem reduction_identity {m n : ℕ} (U : Fin m → Fin n → ℝ) (lam : Fin m → ℝ) (d u0 h h' : Fin n → ℝ) (N : ℝ) :
    (∑ j, lam j * (-(1 / N) * ∑ i, U j i * (d i * h i + u0 i))) - (∑ j, lam j * (-(1 / N) * ∑ i, U j i * (d i * h' i + u0 i)))
      = -(1 / N) * ∑ i, (d i * ∑ j, lam j * U j i) * (h i - h' i) := by
  have e : ∀ g : Fin n → ℝ, (∑ j, lam j * (-(1 / N) * ∑ i, U j i * g i)) = -(1 / N) * ∑ i, (∑ j, lam j * U j i) * g i := by
    intro g
    simp only [Finset.mul_sum, Finset.sum_mul]
    rw [Finset.sum_comm]
    apply Finset.sum_congr rfl; intro i _
    apply Finset.sum_congr rfl; intro j _
    ring
  rw [e, e, ← mul_sub, ← Finset.sum_sub_distrib]
  congr 1
  apply Finset.sum_congr rfl; intro i _
  ring

#print axioms reduction_identity
