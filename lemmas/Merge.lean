namespace Merge

def esc (e s : Char) (c : Char) : List Char :=
  if c = e then [e, e] else if c = s then [e, s] else [c]

def escape (e s : Char) : List Char → List Char
  | [] => []
  | c :: w => esc e s c ++ escape e s w

def join (s : Char) : List (List Char) → List Char
  | [] => []
  | [w] => w
  | w :: w2 :: ws => w ++ s :: join s (w2 :: ws)

def dec (e s : Char) : List Char → List Char → List (List Char)
  | [], cur => [cur.reverse]
  | [c], cur => if c = s ∧ c ≠ e then [cur.reverse, []] else [(c :: cur).reverse]
  | c :: d :: rest, cur =>
    if c = e then dec e s rest (d :: cur)
    else if c = s then cur.reverse :: dec e s (d :: rest) []
    else dec e s (d :: rest) (c :: cur)
termination_by l => l.length

theorem dec_escape (e s : Char) (hes : e ≠ s) (w : List Char) :
    ∀ (tail cur : List Char), dec e s (escape e s w ++ tail) cur = dec e s tail (w.reverse ++ cur) := by
  induction w with
  | nil => intro tail cur; simp [escape]
  | cons c w ih =>
    intro tail cur
    simp only [escape, esc]
    by_cases hce : c = e
    · subst hce
      simp only [if_true, List.cons_append, List.nil_append]
      rw [dec]
      simp only [if_true]
      rw [ih]
      simp [List.reverse_cons, List.append_assoc]
    · by_cases hcs : c = s
      · subst hcs
        simp only [hce, if_false, if_true, List.cons_append, List.nil_append]
        rw [dec]
        simp only [if_true]
        rw [ih]
        simp [List.reverse_cons, List.append_assoc]
      · simp only [hce, hcs, if_false, List.cons_append, List.nil_append]
        -- dec (c :: (escape w ++ tail)) cur, need case on the remainder
        cases hrest : escape e s w ++ tail with
        | nil =>
          -- then escape w = [] and tail = [], so w = []
          have h1 : escape e s w = [] := (List.append_eq_nil_iff.mp hrest).1
          have h2 : tail = [] := (List.append_eq_nil_iff.mp hrest).2
          have hw : w = [] := by
            cases w with
            | nil => rfl
            | cons a w' =>
              simp only [escape, esc] at h1
              split at h1 <;> try split at h1
              all_goals simp at h1
          subst hw; subst h2
          simp [dec, hcs, hce]
        | cons d rest =>
          rw [dec]
          simp only [hce, hcs, if_false]
          rw [← hrest, ih]
          simp [List.reverse_cons, List.append_assoc]


theorem dec_join (e s : Char) (hes : e ≠ s) :
    ∀ (ws : List (List Char)), ws ≠ [] →
      dec e s (join s (ws.map (escape e s))) [] = ws := by
  intro ws
  induction ws with
  | nil => intro h; exact absurd rfl h
  | cons w ws ih =>
    intro _
    cases ws with
    | nil =>
      have := dec_escape e s hes w [] []
      simp only [List.append_nil] at this
      simp only [List.map, join, this]
      simp [dec]
    | cons w2 ws2 =>
      have ih' := ih (by simp)
      simp only [List.map, join] at ih' ⊢
      rw [dec_escape e s hes]
      simp only [List.append_nil]
      -- now dec (s :: join ...) w.reverse
      cases hj : join s (escape e s w2 :: List.map (escape e s) ws2) with
      | nil =>
        rw [hj] at ih'
        simp [dec] at ih'
        obtain ⟨rfl, rfl⟩ := ih'
        have hse : ¬ (s = e) := fun h => hes h.symm
        simp [dec, hse]
      | cons d rest =>
        rw [dec]
        have hse : ¬ (s = e) := fun h => hes h.symm
        simp only [hse, if_false, if_true]
        rw [← hj, ih']
        simp

theorem merge_injective (e s : Char) (hes : e ≠ s) (ws vs : List (List Char))
    (hw : ws ≠ []) (hv : vs ≠ [])
    (h : join s (ws.map (escape e s)) = join s (vs.map (escape e s))) : ws = vs := by
  have h1 := dec_join e s hes ws hw
  have h2 := dec_join e s hes vs hv
  rw [h] at h1
  exact h1.symm.trans h2

/-- Python's `str.replace(a, r)` for a one-character pattern `a` (dependency contract, conformance-tested). -/
def repl (a : Char) (r : List Char) : List Char → List Char
  | [] => []
  | c :: w => (if c = a then r else [c]) ++ repl a r w

theorem repl_append (a : Char) (r u v : List Char) : repl a r (u ++ v) = repl a r u ++ repl a r v := by
  induction u with
  | nil => simp [repl]
  | cons c u ih => simp [repl, ih, List.append_assoc]

/-- `name.replace(e, e+e).replace(s, e+s)` is the escape function the injectivity theorem is about. -/
theorem repl_repl (e s : Char) (hes : e ≠ s) (w : List Char) :
    repl s [e, s] (repl e [e, e] w) = escape e s w := by
  induction w with
  | nil => simp [repl, escape]
  | cons c w ih =>
    simp only [repl, escape, esc]
    rw [repl_append, ih]
    by_cases hce : c = e
    · subst hce
      simp [repl, hes]
    · by_cases hcs : c = s
      · subst hcs
        simp [repl, hce]
      · simp [repl, hce, hcs]

end Merge

