#!/usr/bin/env python3
"""Regenerates /verif/MANIFEST.json from the table below (kept valid at all times)."""
import json
import os

ROOT = os.path.dirname(os.path.dirname(os.path.abspath(__file__)))
BASELINE_CMD = ("cd /repo && /venv/bin/python -m pytest -ra -q -p no:cacheprovider --timeout=900 "
                "--continue-on-collection-errors --junitxml=/tmp/fairlearn_baseline_off.junit.xml")

NOTE_COMMON = ("Assumed and listed in every evidence file: A1 floats as mathematical reals; A2 dependency contracts of numpy/pandas/sklearn/"
               "scipy/torch calls; A3 the pyvc encoding of the Python subset; A4 z3/cvc5/Lean soundness; A5 no termination proof; "
               "A7 user callables deterministic and side-effect free. Bounded stand-ins are labelled bounded and never counted as proved.")

# pid -> dict(category, text, technique, note, design_ref)
CHECKS = {}

# pid -> reason (only for properties without a registered check)
NOT_APPLICABLE = {}


def load_tables():
    import importlib.util
    p = os.path.join(ROOT, "tools", "manifest_table.py")
    spec = importlib.util.spec_from_file_location("manifest_table", p)
    m = importlib.util.module_from_spec(spec)
    spec.loader.exec_module(m)
    return m.CHECKS, m.NOT_APPLICABLE, getattr(m, "ENGINES", [])


def main():
    checks, na, engines = load_tables()
    ids = [json.loads(l)["id"] for l in open(os.path.join(ROOT, "properties.jsonl"))]
    assert set(checks) | set(na) == set(ids), sorted(set(ids) - set(checks) - set(na))
    assert not (set(checks) & set(na))
    man = {
        "version": 1,
        "setup_cmd": "./setup.sh",
        "hooks": {"guard": "FAIRLEARN_VERIF",
                  "enable": "no source hooks are needed: contracts are sidecar files under /verif/vf/contracts, the verifier re-reads "
                            "the real functions from /repo's working tree on every run, run-time contract monitors wrap the real "
                            "functions from outside",
                  "baseline_off_cmd": BASELINE_CMD, "source_commits": [], "add_only": True},
        "engines": engines,
        "checks": [],
        "notes": "Contract-based deductive verification of the real fairlearn source (see DESIGN.md). `./check <ID> --tier quick|thorough`; "
                 "exit 0 held, 1 violation (VIOLATION line), 3 checker failure. known_findings.json lists genuine defects recorded rather "
                 "than repaired and the fix: commits made in /repo.",
        "not_applicable": [{"property_id": k, "reason": v} for k, v in sorted(na.items())],
    }
    for pid in ids:
        if pid not in checks:
            continue
        c = checks[pid]
        man["checks"].append({
            "property_id": pid,
            "quick_cmd": f"./check {pid} --tier quick",
            "thorough_cmd": f"./check {pid} --tier thorough",
            "evidence_file": f"evidence/{pid}.json",
            "replay_cmd_template": f"./check {pid} --replay {{path}}",
            "engine": c.get("engine", "pyvc"),
            "level_claimed": {"category": c["category"], "text": c["text"], "design_ref": c.get("design_ref", f"DESIGN.md section 6 / {pid}")},
            "level_note": c.get("note", "") + " " + NOTE_COMMON,
            "technique": c["technique"],
        })
    json.dump(man, open(os.path.join(ROOT, "MANIFEST.json"), "w"), indent=1)
    try:
        import jsonschema
        jsonschema.validate(man, json.load(open("/root/.vp/MANIFEST.schema.json")))
        print("MANIFEST.json valid;", len(man["checks"]), "checks,", len(man["not_applicable"]), "not applicable")
    except ImportError:
        print("MANIFEST.json written (jsonschema not available for validation)")


if __name__ == "__main__":
    main()
