#!/usr/bin/env python3
"""Store the confirmed seeded changes under /verif/seeded/<id>/ and write seeded/TABLE.md.

Input: /tmp/seed/<id>/{patch.diff, demo.py, notes.txt, eval.json} (eval.json written by tools/eval_seeded.py).
A change is kept only when, in a scratch worktree of /repo HEAD: the patch applies, the package imports, the demonstration fails with the change and
passes without it, and the repository's baseline-stable tests all still pass with the change.
"""
import json
import os
import re
import shutil
import subprocess
import sys

ROOT = os.path.dirname(os.path.dirname(os.path.abspath(__file__)))
SEED = os.environ.get("SEED_DIR", "/tmp/seed")
OFFSET = int(os.environ.get("SEED_OFFSET", "0"))          # second-round changes are stored as <pid>_<k+3> (OFFSET=3), third-round ones as <pid>_<k+6> (OFFSET=6)


def needs(notes):
    """the paragraph of the author's notes that says what the change needs to manifest"""
    lines = notes.splitlines()
    for i, ln in enumerate(lines):
        if re.search(r"need", ln, re.I) and re.search(r"manifest|trigger|need(s|ed)?\b", ln, re.I):
            out = [ln.strip()]
            for nxt in lines[i + 1:i + 14]:
                if not nxt.strip() or re.match(r"^(Tests|Demo|Clause|Why|Unaffected|Not exposed|\*\*)", nxt.strip()):
                    break
                out.append(nxt.strip())
            return " ".join(out)[:1200]
    return " ".join(notes.split())[:600]


def main():
    ids = sorted(d for d in os.listdir(SEED) if re.fullmatch(r"C\d\d_\d", d) and os.path.exists(os.path.join(SEED, d, "eval.json")))
    head = subprocess.run("git -C /repo rev-parse --short HEAD", shell=True, capture_output=True, text=True).stdout.strip()
    rows = []
    for cid in ids:
        d = os.path.join(SEED, cid)
        ev = json.load(open(os.path.join(d, "eval.json")))
        notes = open(os.path.join(d, "notes.txt")).read() if os.path.exists(os.path.join(d, "notes.txt")) else ""
        confirmed = bool(ev.get("patch_applies") and ev.get("imports") and ev.get("demo_fails_with_change") and ev.get("demo_passes_without") and ev.get("suite_passes"))
        checks = ev.get("checks", {})
        detected_by = []
        for c, v in checks.items():
            if v.get("exit") == 1:
                viol = [ln for ln in v.get("lines", []) if ln.startswith("VIOLATION") or ln.startswith("  what:")]
                detected_by.append({"check": c, "tier": v.get("tier", "quick"), "first_violation": " ".join(viol[:2])[:500]})
        status = "kept" if confirmed else "dropped"
        reason = None
        if not confirmed:
            reason = "; ".join(k for k, ok in (("patch does not apply", ev.get("patch_applies")), ("import fails", ev.get("imports")),
                                               ("demonstration does not fail with the change", ev.get("demo_fails_with_change")),
                                               ("demonstration fails without the change", ev.get("demo_passes_without")),
                                               ("an existing test fails with the change: " + ", ".join(ev.get("suite_missing") or [])[:300], ev.get("suite_passes"))) if not ok)
        sid = cid if not OFFSET else f"{cid.split('_')[0]}_{int(cid.split('_')[1]) + OFFSET}"
        meta = {"id": sid, "round": int(os.environ.get("SEED_ROUND") or 1 + OFFSET // 3), "property": ev["property"], "status": status, "dropped_because": reason,
                "what_it_needs_to_manifest": needs(notes),
                "what_was_run": {"repo_head": head,
                                 "apply": f"git -C <scratch worktree of /repo HEAD> apply seeded/{sid}/patch.diff",
                                 "demonstration": f"PYTHONPATH=<worktree> /venv/bin/python seeded/{sid}/demo.py  (must exit non-zero) and the same with PYTHONPATH=/repo (must exit 0)",
                                 "tests": "cd <worktree> && PYTHONPATH=<worktree> /venv/bin/python -m pytest -q -p no:cacheprovider --timeout=900 --continue-on-collection-errors "
                                          "--junitxml=... ; every id in stable_pass of /root/.vp/BASELINE.json must pass",
                                 "checks": f"VERIF_REPO=<worktree> ./check {ev['property']} --tier quick"},
                "results": {k: ev.get(k) for k in ("patch_applies", "imports", "demo_fails_with_change", "demo_passes_without", "suite_passes", "suite_missing")},
                "checks": checks, "detected": bool(detected_by), "detected_by": detected_by, "authors_notes": notes[:6000]}
        if confirmed:
            out = os.path.join(ROOT, "seeded", sid)
            os.makedirs(out, exist_ok=True)
            for f in ("patch.diff", "demo.py"):
                shutil.copy(os.path.join(d, f), os.path.join(out, f))
            for f in os.listdir(d):          # helper modules of the demonstration
                if f.endswith(".py") and f != "demo.py":
                    shutil.copy(os.path.join(d, f), os.path.join(out, f))
            json.dump(meta, open(os.path.join(out, "meta.json"), "w"), indent=1)
        rows.append(meta)
    lines = ["| change | property | what it changes / needs | kept | caught by (quick tier) |", "|---|---|---|---|---|"]
    for m in rows:
        first = (m["authors_notes"].splitlines() or [""])[0][:140].replace("|", "/")
        by = "; ".join(f"`{x['check']}`: {x['first_violation'].split('what:')[-1].strip()[:160]}" for x in m["detected_by"]).replace("|", "/") or \
            ("**missed**" if m["status"] == "kept" and m["checks"] else "-")
        lines.append(f"| {m['id']} | {m['property']} | {first} | {m['status']}{'' if m['status'] == 'kept' else ' (' + (m['dropped_because'] or '')[:80] + ')'} | {by} |")
    kept = [m for m in rows if m["status"] == "kept"]
    caught = [m for m in kept if m["detected"]]
    lines.append("")
    lines.append(f"{len(rows)} candidate changes evaluated, {len(kept)} kept, {len(caught)} of the kept ones are caught by the check of their property (quick tier).")
    os.makedirs(os.path.join(ROOT, "seeded"), exist_ok=True)
    open(os.path.join(ROOT, "seeded", os.environ.get("SEED_TABLE") or ("TABLE.md" if not OFFSET else f"TABLE_round{1 + OFFSET // 3}.md")), "w").write("\n".join(lines) + "\n")
    print("\n".join(lines[-3:]))


if __name__ == "__main__":
    sys.exit(main())
