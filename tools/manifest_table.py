"""Table behind MANIFEST.json (tools/gen_manifest.py). One entry per property: either a registered check or a reason."""
ENGINES = [
    {"name": "pyvc", "path": "vf/pyvc", "serves_properties": [f"C{i:02d}" for i in range(1, 21)],
     "kind_free_text": "home-built deductive verifier: symbolic execution of the real Python AST (re-read from /repo each run), sidecar contracts "
                       "and loop invariants (vf/contracts), obligations discharged by z3 (cvc5 for z3's unknowns), Lean 4 for string / finite-sum lemmas; "
                       "AST analyses (vf/static) decide frame, provenance and call-site obligations"},
    {"name": "rtc", "path": "vf/bounded", "serves_properties": [f"C{i:02d}" for i in range(1, 21)],
     "kind_free_text": "bounded stand-in: run-time contract checks of the real code against first-principles oracles over an exhaustively enumerated small "
                       "scope plus seeded samples (always labelled bounded, never counted as proved)"},
]

T = "contract-based deductive verification of the real source (pyvc VCs + z3/cvc5{extra}); bounded run-time-contract stand-in for the clauses no contract reaches"
_B = " X (bounded, never counted as proved): "


def _c(text, extra="", note="", category="other"):
    return dict(category=category, technique=T.format(extra=extra), text=text, note=note)


CHECKS = {
    "C01": _c("P: AnnotatedMetricFunction.__call__ hands the wrapped metric only columns of the same (group) frame; _construct_annotated_metric_function writes one column "
              "name_param per given per-sample parameter and maps the keyword to it; _extract_result; lemma 'column key injective' (z3 strings) is REFUTED and replayed on MetricFrame "
              "= known finding." + _B + "tracer metrics through the real MetricFrame over all group structures of small datasets (by_group cells, product index, NaN for empty "
              "combinations, overall per control combination). groupby/apply/reindex of _apply_functions have no deductive contract.",
              note="Trusted: pandas column selection / list / asarray copy positionally; the bounded part decides everything that runs inside pandas."),
    "C02": _c("P: ratio_sub_one = min(r,1/r) for r>0 (the r<0 clause from the property text is refuted with r=-1/2 and replayed: known finding); lemmas agg.* (difference>=0, "
              "ratio in [0,1], between<=2*to_overall, weighted-mean sandwich) for k<=4 groups; the MetricFrame result cache: _populate_results writes into cell [kind][method][errors] the "
              "extracted value of the DisaggregatedResult call with exactly those arguments over the control levels (or the exception that call raised, for all 2^4 + 2^8 raise/return "
              "combinations), _group, and the readers group_min/group_max/difference/ratio/overall/by_group return or raise the cell of their own arguments, documented defaults included, "
              "ValueError outside the documented argument sets, cache unmodified." + _B + "group_min/max/difference/ratio for both methods and errors settings on value "
              "tables incl. 0, negatives, NaN, control strata, against the formulas of the statement."),
    "C03": _c("P: each of the six named fairness metrics is verified against the callee contracts of MetricFrame/aggregates/base rates (right base metric, aggregate, caller's "
              "method and sample_weight under key sample_weight for every rate; equalized odds: max/min or mean, other agg raises); _DerivedMetric.__call__ keyword routing and "
              "dispatch." + _B + "every named and generated metric against direct row loops with exact rationals on all small datasets."),
    "C04": _c("P: _calculate_tradeoff_points (every row is a threshold rule with exactly its metrics, both constant rules present, degenerate group raises), hull (coverage, strict "
              "concavity), _get_interpolation_indices, _interpolate_curve, simple-constraints optimisation (one shared i_best for any number of groups), equalized-odds entries "
              "(p_ignore mixing puts every group on the same FPR/TPR point), ThresholdOperation, the counts callees - all for unbounded input sizes." + _B + "real fit on all small "
              "multisets of (group,label,score) rows: expected constrained metric equal across groups.",
              note="Trusted: pandas sort_values/itertuples/DataFrame construction, np.searchsorted/where/fancy indexing contracts; floats as reals."),
    "C05": _c("P: hull coverage + concavity from the real source, both constant rules present, i_best = first maximiser of the frequency-weighted objective; lemmas hull.support and "
              "jensen.mix (ghost-loop VCs) turn coverage into optimality among all mixtures with the same mean abscissa." + _B + "LP reference (scipy linprog) over the enumerated rules "
              "for every grid value on small datasets.", note="Completeness of the rule enumeration (every cut has a row) is bounded only."),
    "C06": _c("P: _combine_event_and_control (null event stays null), UtilityParity.__init__, ErrorRate.__init__, the U-matrix loop of load_data for any number of (event,group) pairs "
              "(point-wise column formulas), gamma = -(U^T(utility_diff*h+u0))/n, bound; lemmas gamma.mean and sum linearity (induction base/step)." + _B + "real load_data/gamma for all "
              "five parity moments x bounds x control features on all small datasets against row-loop rationals; BoundedGroupLoss, ErrorRate.",
              note="Trusted: pandas groupby(...).size()/n gives the event / group-event probabilities."),
    "C07": _c("P: signed_weights = utility_diff*(U lambda) with the same U as gamma (adjoint), project_lambda point-wise, _Lagrangian._call_oracle (labels 1[w>0], weights n|w|/sum|w|, "
              "constant classifier iff one relabelled value); lemmas lagrangian.project, best_response, errorrate.difference; Lean/Mathlib reduction_identity (thorough tier)." + _B +
              "the identity on unit lambdas/predictors and random ones through the real moments; recording learner.", extra=", Lean 4 + Mathlib"),
    "C08": _c("P: _GapResult.gap, _Lagrangian._eval, eval_gap, and the whole iteration/selection logic of ExponentiatedGradient.fit over a ghost view of gaps/Qs (any max_iter, LP step "
              "on/off): best_gap_ = gap of the returned iteration, within 1e-8 of the smallest, weights_ = its distribution, early stop => best_gap_ < nu + 1e-8; lemma saddle." + _B +
              "real fit with an exact cost-sensitive learner over an enumerable class against an LP reference.", note="Vectors are opaque in the EG VCs; best_h / solve_linprog are assumed callee contracts."),
    "C09": _c("P: GridSearch.__init__, the grid loop of fit for any number of grid columns (relabel/reweight per column, records belong to the estimator trained in that iteration incl. "
              "closure late binding, best_idx_ = first minimiser of the trade-off), predict/predict_proba delegation." + _B + "real fit with an exact learner: grid count/distinctness/"
              "sign/L1 bound, best response, recorded values, argmin.", note="The lattice generator _GridGenerator is bounded only."),
    "C10": _c("P: InterpolatedThresholder._pmf_predict for any number of fitted groups (point-wise formula, valid distribution, depends only on score and group), "
              "ExponentiatedGradient.predict wiring (one uniform draw per row; regression: probabilities re-indexed by the value columns), ThresholdOperation.__call__; lemmas "
              "monotone-in-score and Bernoulli." + _B + "fitted models: distributions, reproducibility, determinism at 0/1, frequency bands, regression predictor frequencies.",
              note="Statistical quality of numpy's generator is assumed."),
    "C11": _c("P: scalar shape of selection_rate / mean_prediction for a single weighted row (all n>=1); lemma wsum.multiplicity (k copies, scaling, unit weights) over the weighted-sum "
              "normal forms; the weighted sum np.dot(., weights) of selection_rate / mean_prediction is accumulated in float64 whatever the dtype (kind) of the caller's weights "
              "(dtype-width obligation, replayed with uint8 and float16 weights)." + _B + "weight-k vs k-copies, scaling, ones-vs-omitted for the base metrics, inside MetricFrame per group and for the named metrics on small datasets."),
    "C12": _c("P: _validate_and_reformat_input returns pandas objects with a default index built from label-free arrays (12 rank patterns, any sizes); index-provenance type-state over 18 "
              "entry points: no caller label reaches an aligning pandas operation." + _B + "every public result computed from lists vs every accepted container with shuffled/offset/"
              "duplicated/string index labels; row permutations; label bijections."),
    "C13": _c("P: the per-row pipeline of _merge_columns is extracted from the real source by the symbolic executor and instantiates the Lean 4 theorems merge_injective / repl_repl "
              "(strings of any length over any alphabet); the validator merges iff >1 column; every moment, ThresholdOptimizer.fit and _pmf_predict obtain groups from that validator." +
              _B + "adversarial alphabets through _merge_columns, moments, ThresholdOptimizer fit/predict vs MetricFrame's partition.", extra=", Lean 4", category="proof"),
    "C14": _c("P: _get_labels_for_confusion_matrix for every number of distinct values x pos_label given/None x int/str; the four rates return their own cell of sklearn's row-normalised "
              "confusion matrix with the caller's labels and weights; selection_rate/mean_prediction return a 0-d value for every n>=1 and accumulate their weighted sum in float64 (dtype-width obligation)." + _B + "all vectors up to n=3 (5 thorough) x 7 encodings "
              "x weights against exact rationals.", note="Trusted: sklearn.metrics.confusion_matrix and numpy.unique contracts."),
    "C15": _c("P: CorrelationRemover.fit stores the per-column mean of the sensitive block and the least-squares coefficients on the column-centred block; transform is "
              "alpha*(Z-(S-mean)beta)+(1-alpha)*Z cell by cell with the stored mean/coefficients, any shape; lemma cov.zero; _create_lookup rebuilds the column table from the X of this call whatever an earlier fit left (S: 1-3 columns), "
              "_split_X (S); frame conditions incl. F3 (fit reads no fitted state before writing it)." + _B + "random/collinear/constant matrices vs lstsq on "
              "explicitly centred data, covariance at alpha=1, transform on fresh data.", note="Trusted: lstsq normal equations; _split_X contract (bounded)."),
    "C16": _c("S (all real values, bounded tensor shapes up to 3x2 quick / 4x2 thorough): the projected-gradient update block of the torch and tensorflow engines executed symbolically "
              "from the real source: exact formula with tiny>0 and Frobenius orthogonality for tiny=0; TF optimiser wiring (adversary follows its own plain gradient)." + _B +
              "real torch partial_fit with SGD(lr=1) against autograd + the formula.", note="Autograd/optimisers assumed; the TF engine cannot be executed here (static only)."),
    "C17": _c("P: the epoch/batch loop nest of _AdversarialFairness.fit with ghost traces for 0/1/2 callbacks (slices, step numbers, three exit kinds, any n/batch_size/epochs/max_iter), "
              "_binary_predictor_function (>= threshold, classifier fixes 0.5), _set_predictor_function (arg-max one-hot, identity)." + _B + "recording backend over all small configurations; "
              "fit vs the same slices through partial_fit with torch; predict label space."),
    "C18": _c("P: generate_single_bootstrap_sample uses data.sample(frac=1, replace=True, random_state=seed, axis=0, ignore_index=True) and evaluates the metrics on that resample; "
              "generate_bootstrap_samples produces exactly n_samples results, the k-th a function of (integer seed, k) - loop invariant for any n_samples; _populate_results_ci / _group_ci write, for any number of resamples and quantiles, the interval list of each estimate (right aggregate, "
              "method, control levels, errors='raise') into its own cache cell and the six *_ci readers return the cell of their own estimate and method behind the bootstrap guard." + _B + "ci result shapes, "
              "ordering in the quantile, reproducibility, count = n, constant metrics.", note="np.quantile monotonicity and the 'positive width' clause are bounded / observation only."),
    "C19": _c("P: frame conditions F1-F5 (no constructor parameter assigned, parameter objects not mutated, reads only parameters before writing, returns self, prediction writes nothing) "
              "for six estimator classes by a flow-sensitive effect analysis of the real ASTs; 5 obligations fail = the recorded known findings." + _B + "all call sequences up to length "
              "3/4 over fit/predict/pickle/clone.", note="Pickle round trips are run-time only."),
    "C20": _c("P: 'normal return => valid input' for _validate_and_reformat_input (36 rank patterns, all flags/dimensions symbolic), UtilityParity/ErrorRate/GridSearch/ThresholdOperation "
              "constructors, _calculate_tradeoff_points (group lacking a label), _get_labels_for_confusion_matrix; validator dominance in 9 entry points." + _B + "defect injection at "
              "every entry point x argument x container."),
}

# contracts added after the first round (appended to the texts above)
_MORE = {
    "C01": " Also: vector-valued rows (sample axis kept for n = 1), DisaggregatedResult.create/_apply_functions call sites, provenance of the MetricFrame entry points.",
    "C02": " Also: DisaggregatedResult.apply_grouping/difference/ratio for any number of groups (real and integer cells, one generic control-feature stratum) with a bounded native "
           "search on the real class after a refuted/undecided obligation.",
    "C03": " Also: the generated-metrics table, the four rates and their label helper, scalar shapes.",
    "C04": " Also: the equalized-odds curve loop (caller's flip, default FPR/TPR metrics) and selection step (lowest hull, first maximiser of the overall objective), state of an earlier fit is rebuilt, provenance type-state.",
    "C05": " Also: the equalized-odds selection step (first maximiser of accuracy / balanced accuracy on the pointwise-lowest hull); the native search checks completeness (a '>' rule between any two different scores).",
    "C06": " Also: the five load_data event constructions incl. control strata, gamma for (n,1) predictor output, SquareLoss/AbsoluteLoss.eval, ConditionalLossMoment.",
    "C07": " Also: ErrorRate / ConditionalLossMoment signed_weights (labels vs positions of the multiplier Series).",
    "C08": " Also: any requested nu >= 0; bounded native search (exact learner, ~650 runs) after a refuted/undecided obligation.",
    "C09": " Also: every grid point trains its own deep copy; _GridGenerator.accumulate_integer_grid (modular recursion contract); native searches.",
    "C10": " Also: ExponentiatedGradient._pmf_predict (zero test and mixture by label), seeded generator, flip wiring of the equalized-odds curves, no '<' rules without flip.",
    "C11": " Also: MetricFrame weight plumbing (_construct_annotated_metric_function, AnnotatedMetricFunction.__call__), the named metrics, the rates.",
    "C15": " Also: refit rebuilds the column lookup from this call's X; _split_X (label S, widths <= 3).",
    "C16": " Also (P): gradient flow of the whole torch train_step (autograd buffers as ghost type-state).",
    "C17": " Also: bounded native schedule search after a refuted/undecided obligation.",
    "C18": " Also: the bootstrap part of MetricFrame.__init__ (the caller's quantile list is used unchanged), _calc_dataframe_quantiles/_calc_series_quantiles (NaN-ignoring quantiles, entry i = quantile i).",
    "C19": " Also: aliases of constructor parameters (F2), BackendEngine.evaluate of both engines (one forward pass in evaluation mode).",
    "C20": " Also: bootstrap arguments of MetricFrame; a cast of the labels is not the identity.",
}
_MORE2 = {
    "C01": " _get_annotated_metric_functions (own sample_params entry per metric, caller's mapping untouched), _process_features for dicts (caller's order).",
    "C03": " MetricFrame weight plumbing and provenance of the MetricFrame entry points.",
    "C04": " Frame conditions F1/F3-F6 of ThresholdOptimizer; stand-in: narrow / unsigned score dtypes.",
    "C05": " Stand-in: narrow / unsigned score dtypes.",
    "C06": " Purity (F5) of the moments' query methods; stand-in: label dtypes.",
    "C07": " project_lambda with labels vs positions; purity (F5) of the moments' query methods.",
    "C09": " Frame conditions F4-F6 of GridSearch; the single-value shortcut inspects the trained labels.",
    "C10": " InterpolatedThresholder.predict (seed 0 is a seed); purity of the stored predictor callable; F5/F6 of the predictors.",
    "C12": " _process_features for dicts (caller's order); provenance of .index / getattr(x,'index') / raw_feature_.",
    "C13": " The caller's container type is symbolic in the validator contract; stand-in: white-space tuples and constraint values per tuple-equality group.",
    "C14": " Stand-in: input dtypes (bool, int8, uint8, float32).",
    "C16": " shuffle of the engines; an alpha cached on the engine is not the estimator's parameter.",
    "C17": " Stand-in: refit histories (warm_start on/off), classes= at every partial_fit call.",
    "C18": " Stand-in: direct single-resample contract (n rows, every row drawn, NaN cells).",
    "C19": " F6: prediction reads only parameters and state that fit defines; seeded draws of predict.",
    "C20": " Stand-in: control features rejected also with prefit=True.",
}
for _k, _v in _MORE2.items():
    _MORE[_k] = _MORE.get(_k, "") + _v
for _k, _v in _MORE.items():
    CHECKS[_k]["text"] = CHECKS[_k]["text"] + _v
NOT_APPLICABLE = {}
