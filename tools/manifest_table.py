"""Table behind MANIFEST.json (tools/gen_manifest.py). One entry per property: either a registered check or a reason."""
ENGINES = [
    {"name": "pyvc", "path": "vf/pyvc", "serves_properties": [],
     "kind_free_text": "home-built deductive verifier: symbolic execution of the real Python AST (re-read from /repo each run), "
                       "sidecar contracts and loop invariants, obligations discharged by z3 (cvc5 for z3's unknowns), Lean 4 for string lemmas"},
    {"name": "rtc", "path": "vf/bounded", "serves_properties": [],
     "kind_free_text": "bounded stand-in: the same contracts evaluated at run time on the real code over an exhaustively enumerated small scope "
                       "(always labelled bounded, never counted as proved)"},
]
CHECKS = {
    "C14": dict(category="other", technique="contract-based deductive verification (pyvc VCs from the real AST + z3) with a bounded run-time-contract stand-in",
                text="P: _get_labels_for_confusion_matrix is verified for every number of distinct values, pos_label given/None, int and str encodings "
                     "(postconditions from the property: positive label last, raises exactly for unsupported encodings) and the four rate functions are "
                     "verified to return their own cell of sklearn's row-normalised confusion matrix with the caller's weights and labels (wiring obligations "
                     "against an assumed dependency contract). X (bounded): all label/prediction vectors up to n=3 (quick) / 5 (thorough) x 7 encodings x weights "
                     "compared with exact first-principles rationals, incl. scalar-ness, range, complements and role swap.",
                note="Trusted: sklearn.metrics.confusion_matrix and numpy.unique contracts (assumed, exercised by the stand-in)."),
}
_PENDING = "check not built yet in this round (work in progress; see DESIGN.md section 10) - nothing is claimed for this property"
NOT_APPLICABLE = {f"C{i:02d}": _PENDING for i in range(1, 21) if f"C{i:02d}" not in CHECKS}
