"""Table behind MANIFEST.json (tools/gen_manifest.py). One entry per property: either a registered check or a reason."""
ENGINES = [
    {"name": "pyvc", "path": "vf/pyvc", "serves_properties": [],
     "kind_free_text": "home-built deductive verifier: symbolic execution of the real Python AST (re-read from /repo each run), "
                       "sidecar contracts and loop invariants, obligations discharged by z3 (cvc5 for z3's unknowns), Lean 4 for string lemmas"},
    {"name": "rtc", "path": "vf/bounded", "serves_properties": [],
     "kind_free_text": "bounded stand-in: the same contracts evaluated at run time on the real code over an exhaustively enumerated small scope "
                       "(always labelled bounded, never counted as proved)"},
]
CHECKS = {}
_PENDING = "check not built yet in this round (work in progress; see DESIGN.md section 10) - nothing is claimed for this property"
NOT_APPLICABLE = {f"C{i:02d}": _PENDING for i in range(1, 21) if f"C{i:02d}" not in CHECKS}
