#!/usr/bin/env python3
"""fills the STANDIN_Cxx / SEEDED_TABLE placeholders of DESIGN_section12.md and appends the result to DESIGN.md (replacing an older section 12)"""
import json
import os

ROOT = os.path.dirname(os.path.dirname(os.path.abspath(__file__)))
STANDIN = {
    "C01": "tracer metrics through the real MetricFrame: every assignment of n<=5 (7) rows to one feature with <=3 values, 1-3 sensitive x 0-2 control binary features for n<=3 (4), 1500 (30000) seeded; containers and index labels rotate; 4817 cases quick",
    "C02": "value tables fed to DisaggregatedResult (all <=3-group columns over {-2,-1,0,.25,.5,1,2,NaN}), seeded tables with strata, lookup-metric MetricFrames, weighted-mean metrics end to end; 4546 cases quick",
    "C03": "61 call specs (16 named, 39 generated, 6 derived) vs Fraction row loops: all y_true,y_pred in {0,1}^n x all partitions n<=3 (4), 1000 (3000) seeded n<=6 incl. single-member groups and empty denominators; 2570 cases quick",
    "C04": "real fit behind a pass-through scorer: all 2-group x 2-row x 3-level multisets under all 384 configurations, other multisets n<=6 (8) and 1000 seeded (<=5 groups, 14 rows, ties / real scores) under seeded configurations; 25230 cases quick",
    "C05": "same scope; reference optimum by exact enumeration of basic LP solutions AND scipy linprog for every grid value; parity on a grid value, maximality 1e-7, best-constant clause; 10230 cases quick",
    "C06": "every (group,label,stratum) structure n<=5 (6), 2-3 groups, 0-1 control feature, five moments x bound configurations, hard predictions exhaustive + soft; BoundedGroupLoss, ErrorRate, MetricFrame agreement; 11022 cases quick",
    "C07": "gradient identity on unit and seeded multipliers/predictors, loss moments, project_lambda (non-negative, never lowers the Lagrangian), recording learner for _call_oracle / GridSearch; 11562 cases quick",
    "C08": "real ExponentiatedGradient.fit with an exact learner over all 2^k functions (k<=3 quick, 5 thorough): all 1200 moment x bound x eps x max_iter x LP-step x eta0 combinations on seeded datasets, nu in {None,.2,.02,1e-4,0}; gap/error/violation clauses against enumeration + LP; 1828 cases quick",
    "C09": "real GridSearch.fit/predict with exact learners (parity moments, BoundedGroupLoss), grid_size 2..14 (60): count/sign/L1/distinct, best response by enumeration, recorded values, first argmin, delegation spies; 5619 cases quick",
    "C10": "240 thresholder models x 200 seeds (valid pmf, (score,group) only, monotone without flip, reproducible, deterministic at 0/1, exact-binomial frequency band), 40 classification + 72 regression EG fits x 250 seeds incl. runs without the LP step; 352 models quick",
    "C11": "weight-k vs k-copies, scaling {0.5,3,1e-3}, ones vs omitted: base metrics all n<=3 (4) x {1,2,3}^n; MetricFrame per group and named metrics incl. single weighted rows; 4988 cases quick",
    "C12": "plain lists vs every accepted container per argument with permuted/offset/duplicated/string index labels for MetricFrame, named metrics, 7 moments, EG, GridSearch, ThresholdOptimizer; row permutations; label bijections; 1392 cases quick",
    "C13": "all 2-column tuples over strings of length<=2 (3) over {a , \\\\} plus '', 3 columns length<=1, numeric-looking values, whole-table calls; moments, ThresholdOptimizer fit/predict, reductions; 1030 cases quick",
    "C14": "all (y_true,y_pred) in {0,1}^n, n<=3 (5), 7 encodings/pos_label settings, weights None or {1,2,3}^n, seeded longer vectors; exact rationals; 14076 cases quick",
    "C15": "grid n 2..8 x 1-4 sensitive x 1-3 other columns x 6 column kinds (collinear, constant, large mean) x ndarray/DataFrame x alpha {0,.3,1}; lstsq on explicitly centred data, covariance, fresh-data transform; 4536 cases quick",
    "C16": "real torch partial_fit/fit with SGD: 3 target kinds x 4 sensitive kinds x DP/EO x alpha {0,.7,3}, seeded architectures (0-2 hidden layers), autograd + first-principles formula, adversary update; 720 cases quick",
    "C17": "recording BackendEngine over the exhaustive schedule grid (14700 configurations), fit vs the same slices through partial_fit with torch (108), predict label space (60)",
    "C18": "4 layouts x 5 metric specs x n_boot {1,5,30} x 5 quantile lists x 2 datasets: shapes/index/columns, order in the quantile, reproducibility, count = n, constant metrics, single-quantile consistency; 600 cases quick",
    "C19": "every call sequence of length<=3 (4) over {fit D1, fit D2, predict, pickle, clone} for 13 class/configuration pairs: get_params identity/value, fit returns self, refit vs fresh, repeatability, pickle; 1416 cases quick",
    "C20": "defect injection: 4746 data defects (length off by k, label outside {0,1}, group lacking a label, missing sensitive feature) x entry point x argument x container, 777 configuration defects, 108 naming defects, 132 predict-before-fit; every case has a control call that must succeed",
}


def main():
    s = open(os.path.join(ROOT, "DESIGN_section12.md")).read()
    for k, v in STANDIN.items():
        s = s.replace(f"STANDIN_{k}", v)
        try:
            ev = json.load(open(os.path.join(ROOT, "evidence", f"{k}.json")))
            by = ev["coverage"]["obligations_by_label"]
            ded = {lab: d for lab, d in by.items() if lab in ("P", "S")}
            n, dis = sum(d["obligations"] for d in ded.values()), sum(d["discharged"] for d in ded.values())
            s = s.replace(f"OBL_{k}", f"{dis}/{n}" if dis != n else f"{n}")
        except Exception:
            s = s.replace(f"OBL_{k}", "?")
    seeded = os.path.join(ROOT, "seeded", "TABLE.md")
    s = s.replace("SEEDED_TABLE", open(seeded).read() if os.path.exists(seeded) else "(filled in by tools/design_fill.py from seeded/TABLE.md)")
    r2 = os.path.join(ROOT, "seeded", "TABLE_round2.md")
    s = s.replace("ROUND2_TABLE", open(r2).read() if os.path.exists(r2) else "(seeded/TABLE_round2.md)")
    r3 = os.path.join(ROOT, "seeded", "TABLE_round3.md")
    s = s.replace("ROUND3_TABLE", open(r3).read() if os.path.exists(r3) else "(seeded/TABLE_round3.md)")
    r4 = os.path.join(ROOT, "seeded", "TABLE_round4.md")
    s = s.replace("ROUND4_TABLE", open(r4).read() if os.path.exists(r4) else "(seeded/TABLE_round4.md)")
    d = open(os.path.join(ROOT, "DESIGN.md")).read()
    marker = "\n---------------------------------------------------------------------------------------------------\n\n## 12. What was built"
    if marker in d:
        d = d[:d.index(marker)]
    open(os.path.join(ROOT, "DESIGN.md"), "w").write(d.rstrip("\n") + "\n\n" + s.lstrip("\n"))
    print("DESIGN.md section 12 written,", len(s.splitlines()), "lines")


if __name__ == "__main__":
    main()
