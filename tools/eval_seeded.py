#!/usr/bin/env python3
"""Evaluate seeded property-breaking changes (written by independent sub-agents under /tmp/seed/<pid>_<k>/).

For each candidate: (1) the patch applies to a fresh worktree of /repo HEAD, (2) demo.py exits non-zero with the patch and 0 without,
(3) the repository's baseline-stable tests still pass with the patch (full suite, junit compared with /root/.vp/BASELINE.json),
(4) the check(s) of the property are run against the patched worktree (VERIF_REPO) and the verdict recorded.
Confirmed candidates are stored as /verif/seeded/<pid>_<k>/{patch.diff, demo.py, meta.json}.

usage: tools/eval_seeded.py [--suite] [--checks C04,C05] <pid>_<k> ...      (run from /verif with .venv/bin/python)
"""
import argparse
import json
import os
import shutil
import subprocess
import sys
import xml.etree.ElementTree as ET

ROOT = os.path.dirname(os.path.dirname(os.path.abspath(__file__)))
SEED = os.environ.get("SEED_DIR", "/tmp/seed")


ONE_THREAD = {"OMP_WAIT_POLICY": "PASSIVE", "GOMP_SPINCOUNT": "0", "OMP_NUM_THREADS": "1", "OPENBLAS_NUM_THREADS": "1", "MKL_NUM_THREADS": "1", "NUMEXPR_NUM_THREADS": "1"}


def sh(cmd, cwd=None, env=None, timeout=None):
    env = dict(env if env is not None else os.environ, **ONE_THREAD)          # several evaluations run side by side: no BLAS/OpenMP oversubscription
    p = subprocess.run(cmd, shell=True, cwd=cwd, env=env, capture_output=True, text=True, timeout=timeout)
    return p.returncode, (p.stdout + p.stderr)


def affected_test_files(patch_path):
    """Test files that can execute the changed code: every test module whose import closure (computed on /repo HEAD by importing the module,
    tools/data/test_import_closure.jsonl) contains a patched module, plus the whole test directory of the patched sub-package (lazy imports such as
    the torch / tensorflow engines), plus test/install and the modules that could not be imported offline.  A test in any other file cannot load the
    changed module, so its baseline result stands."""
    patched = set()
    for ln in open(patch_path):
        if ln.startswith("+++ b/") and ln.strip().endswith(".py"):
            patched.add(ln[6:].strip()[:-3].replace("/", "."))
    sub = {m.split(".")[1] for m in patched if m.count(".") >= 1}
    files = set()
    for ln in open(os.path.join(ROOT, "tools", "data", "test_import_closure.jsonl")):
        r = json.loads(ln)
        if r["error"] or patched & set(r["modules"]) or any(f"test/unit/{s_}/" in r["file"] for s_ in sub) or r["file"].startswith("test/install"):
            files.add(r["file"])
    if any(f.startswith("test/install/test_no_ml") for f in files):
        # test_no_library[auto|torch] pass only in a session that has also collected test/unit/adversarial/test_adversarial_mitigation.py (collection-order
        # dependence of the repository's suite, present on the unmodified tree): keep the two together as in the full run
        files.add("test/unit/adversarial/test_adversarial_mitigation.py")
    return sorted(files), sorted(patched)


def suite_ok(wt, tag, patch_path):
    xml = f"{SEED}/junit_{tag}.xml"
    env = dict(os.environ, PYTHONPATH=wt)
    files, patched = affected_test_files(patch_path)
    sh(f"/venv/bin/python -m pytest -q -p no:cacheprovider --timeout=900 --continue-on-collection-errors --junitxml={xml} {' '.join(files)} > {SEED}/suite_{tag}.log 2>&1",
       cwd=wt, env=env, timeout=14400)
    b = json.load(open("/root/.vp/BASELINE.json"))
    stable = set(x.replace(" ", "") for x in b["stable_pass"])
    prefixes = tuple(f[:-3].replace("/", ".") for f in files)
    relevant = {s for s in stable if s.split("::")[0].startswith(prefixes)}
    status = {}
    for tc in ET.parse(xml).getroot().iter("testcase"):
        cid = (tc.get("classname", "") + "::" + tc.get("name", "")).replace(" ", "")
        status[cid] = not any(ch.tag in ("failure", "error", "skipped") for ch in tc)
    missing = sorted(s for s in relevant if not status.get(s, False))
    return len(missing) == 0, missing[:10], {"patched_modules": patched, "test_files_run": files, "baseline_stable_tests_in_those_files": len(relevant),
                                             "baseline_stable_tests_total": len(stable)}


def main():
    ap = argparse.ArgumentParser()
    ap.add_argument("ids", nargs="+")
    ap.add_argument("--suite", action="store_true")
    ap.add_argument("--checks", default=None)
    ap.add_argument("--tier", default="quick")
    ap.add_argument("--phase", default="all", choices=["all", "suite", "checks", "noml"], help="suite: patch/demo/test-suite only; checks: only run the checks (merges into eval.json)")
    a = ap.parse_args()
    for cid in a.ids:
        d = os.path.join(SEED, cid)
        pid = cid.split("_")[0]
        out = {"id": cid, "property": pid}
        if a.phase in ("checks", "noml") and os.path.exists(os.path.join(d, "eval.json")):
            out = json.load(open(os.path.join(d, "eval.json")))
        wt = f"{SEED}/wt_{cid}_{a.phase}"
        sh(f"git -C /repo worktree remove --force {wt}")
        rc, o = sh(f"git -C /repo worktree add -f {wt} HEAD")
        try:
            rc, o = sh(f"git -C {wt} apply {d}/patch.diff")
            out["patch_applies"] = rc == 0
            if rc != 0:
                out["error"] = o[-400:]
                print(json.dumps(out))
                continue
            if a.phase == "noml":
                miss = out.get("suite_missing") or []
                if miss and all(m.startswith("test.install.test_no_ml::") for m in miss):
                    xml = f"{SEED}/junit_{cid}_noml.xml"
                    sh(f"/venv/bin/python -m pytest -q -p no:cacheprovider --timeout=900 --junitxml={xml} test/install/test_no_ml.py test/unit/adversarial/test_adversarial_mitigation.py "
                       f"> {SEED}/suite_{cid}_noml.log 2>&1", cwd=wt, env=dict(os.environ, PYTHONPATH=wt), timeout=3600)
                    ok_ids = set()
                    for tc in ET.parse(xml).getroot().iter("testcase"):
                        if not any(ch.tag in ("failure", "error", "skipped") for ch in tc):
                            ok_ids.add((tc.get("classname", "") + "::" + tc.get("name", "")).replace(" ", ""))
                    still = [m for m in miss if m not in ok_ids]
                    out["suite_missing"] = still
                    out["suite_passes"] = not still
                    out.setdefault("suite_scope", {})["note"] = ("test_no_library[auto|torch] re-run together with test/unit/adversarial/test_adversarial_mitigation.py "
                                                                 "(they pass only in a session that collected that module - also on the unmodified tree)")
            if a.phase in ("all", "suite"):
                rc, o = sh(f"/venv/bin/python -c 'import fairlearn, fairlearn.metrics, fairlearn.reductions, fairlearn.postprocessing, fairlearn.preprocessing, fairlearn.adversarial'", env=dict(os.environ, PYTHONPATH=wt), cwd=wt)
                out["imports"] = rc == 0
                rc_m, o_m = sh(f"/venv/bin/python {d}/demo.py", env=dict(os.environ, PYTHONPATH=wt), cwd="/tmp", timeout=3600)
                rc_c, o_c = sh(f"/venv/bin/python {d}/demo.py", env=dict(os.environ, PYTHONPATH="/repo"), cwd="/tmp", timeout=3600)
                out["demo_fails_with_change"] = rc_m != 0
                out["demo_passes_without"] = rc_c == 0
                out["demo_output_with_change"] = o_m[-300:]
                if a.suite:
                    ok, missing, info = suite_ok(wt, cid, os.path.join(d, "patch.diff"))
                    out["suite_passes"] = ok
                    out["suite_missing"] = missing
                    out["suite_scope"] = info
            checks = (a.checks.split(",") if a.checks else [pid])
            out.setdefault("checks", {})
            for c in (checks if a.phase in ("all", "checks") else []):
                rc, o = sh(f"./check {c} --tier {a.tier}", cwd=ROOT, env=dict(os.environ, VERIF_REPO=wt), timeout=7200)
                lines = [ln for ln in o.splitlines() if ln.startswith(("VIOLATION", "  what:", "UNDECIDED", "[C", "CHECKER-ERROR"))]
                out["checks"][c] = {"exit": rc, "lines": lines[:12]}
            if out["checks"]:
                out["detected"] = any(v["exit"] == 1 for v in out["checks"].values())
        finally:
            sh(f"git -C /repo worktree remove --force {wt}")
        json.dump(out, open(os.path.join(d, "eval.json"), "w"), indent=1)
        print(json.dumps({k: out[k] for k in out if k not in ("demo_output_with_change",)})[:1500])


if __name__ == "__main__":
    main()
