#!/bin/sh
# Literal procedure for a seeded change: apply it to /repo, run the registered quick command of its property, undo straight afterwards.
# usage: tools/run_on_repo.sh <id> ...   (run when nothing else reads /repo); appends one line per change to seeded/ON_REPO.txt
cd "$(dirname "$0")/.."
for id in "$@"; do
  pid=${id%%_*}
  if ! git -C /repo diff --quiet; then echo "$id: /repo has uncommitted changes, refusing"; exit 2; fi
  if git -C /repo apply "$PWD/seeded/$id/patch.diff"; then
    out=$(./check "$pid" --tier quick 2>&1 | grep -E "^(VIOLATION|\[C)" | head -3 | tr '\n' ' ' | cut -c1-400)
    rc=$?
    git -C /repo checkout -- .
    echo "$id at $(git -C /repo rev-parse --short HEAD): $out" | tee -a seeded/ON_REPO.txt
  else
    echo "$id: patch does not apply" | tee -a seeded/ON_REPO.txt
  fi
done
git -C /repo status --short | head -3
