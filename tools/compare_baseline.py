#!/usr/bin/env python3
"""compare a junit xml with stable_pass of /root/.vp/BASELINE.json: prints missing/failing baseline-stable tests"""
import json, sys, xml.etree.ElementTree as ET
b = json.load(open("/root/.vp/BASELINE.json"))
stable = set(x.replace(" ", "") for x in b["stable_pass"])
root = ET.parse(sys.argv[1]).getroot()
status = {}
for tc in root.iter("testcase"):
    cid = (tc.get("classname", "") + "::" + tc.get("name", "")).replace(" ", "")
    bad = any(ch.tag in ("failure", "error", "skipped") for ch in tc)
    status[cid] = not bad
import re
def norm(s): return s
passed = set(k for k, v in status.items() if v)
# baseline ids may use another format; show a sample if nothing matches
inter = stable & passed
print("stable:", len(stable), "passed now:", len(passed), "stable&passed:", len(inter))
if len(inter) < len(stable):
    miss = sorted(stable - passed)
    print("missing/failing stable tests:", len(miss))
    for m in miss[:15]: print("  ", m)
    if not inter:
        print("sample baseline id:", next(iter(stable))); print("sample junit id:", next(iter(passed)))
