#!/bin/sh
# Builds /verif/.venv offline: python 3.12 (the repo's interpreter) + z3/cvc5/deal/crosshair/jsonschema from the
# local wheelhouse, with /venv's site-packages (pandas, sklearn, torch, fairlearn develop-install) overlaid.
set -e
cd "$(dirname "$0")"
if [ -x .venv/bin/python ] && .venv/bin/python -c "import z3, cvc5, jsonschema, pandas, fairlearn" 2>/dev/null; then
  echo "setup: .venv ok"; exit 0
fi
rm -rf .venv
/venv/bin/python -m venv .venv
PIP_NO_INDEX=1 .venv/bin/pip install -q --no-index --find-links /opt/veriftools/wheels \
   z3-solver cvc5 deal icontract crosshair-tool hypothesis jsonschema sympy >/dev/null
SP=$(.venv/bin/python -c "import sysconfig; print(sysconfig.get_paths()['purelib'])")
echo "import site; site.addsitedir('/venv/lib/python3.12/site-packages')" > "$SP/_overlay.pth"
.venv/bin/python -c "import z3, cvc5, jsonschema, pandas, fairlearn; print('setup: built .venv; fairlearn from', fairlearn.__file__)"
