from z3 import *
import time
Px = Function('Px', IntSort(), RealSort()); Py = Function('Py', IntSort(), RealSort())
Sx = Function('Sx', IntSort(), RealSort()); Sy = Function('Sy', IntSort(), RealSort())
m, k, N = Ints('m k N')
r2x, r2y = Px(k), Py(k)
def below(ax,ay,bx,by,px,py): return (bx-ax)*(py-ay) <= (by-ay)*(px-ax)
i, j = Ints('i j')
chain_mono = ForAll([j], Implies(And(0<=j, j+1<m), Sx(j)<=Sx(j+1)), patterns=[Sx(j)])
cov_in = ForAll([i,j], Implies(And(0<=i, i<=k, 0<=j, j+1<m, Sx(j)<=Px(i), Px(i)<=Sx(j+1)),
                 below(Sx(j),Sy(j),Sx(j+1),Sy(j+1),Px(i),Py(i))), patterns=[MultiPattern(Px(i), Sx(j))])
cov_virt = ForAll([i], Implies(And(0<=i, i<=k, Sx(m-1)<=Px(i), Px(i)<=r2x),
                 below(Sx(m-1),Sy(m-1),r2x,r2y,Px(i),Py(i))), patterns=[Px(i)])
pre = And(0<=k, k<N, m>=2, chain_mono, cov_in, cov_virt, Sx(m-1)<=r2x)
r0x,r0y,r1x,r1y = Sx(m-2),Sy(m-2),Sx(m-1),Sy(m-1)
popc = (r1y-r0y)*(r2x-r0x) <= (r2y-r0y)*(r1x-r0x)
i0 = Int('i0')
goal_virt = Implies(And(0<=i0, i0<=k, Sx(m-2)<=Px(i0), Px(i0)<=r2x), below(Sx(m-2),Sy(m-2),r2x,r2y,Px(i0),Py(i0)))
for mb in (False, True):
    s = Solver(); s.set('timeout', 30000); s.set('smt.mbqi', mb); s.set('auto_config', False)
    s.add(pre, popc, Not(goal_virt))
    t=time.time(); print('mbqi',mb, s.check(), round(time.time()-t,2))
