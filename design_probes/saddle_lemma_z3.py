from z3 import *
errQ, errS, Dstar, L, Llow, Lhigh, g, B, V, LS = Reals('errQ errS Dstar L Llow Lhigh g B V LS')
mx = If(V > 0, V, 0)
hyp = And(B > 0, 0 <= errQ, errQ <= 1, 0 <= errS, errS <= 1,
          Dstar <= 0,                 # sum_j lambda_j (gamma_j(Q*) - b_j) <= 0 : lambda >= 0, Q* feasible   (sum lemma)
          LS == errS + Dstar,         # L(Q*, lambda_hat)
          Llow <= LS,                 # L_low = min_h L(h, lambda_hat) <= L(Q*, lambda_hat) : mixture >= minimum (sum lemma)
          Lhigh == errQ + B * mx,     # _eval
          L - Llow <= g, Lhigh - L <= g)   # gap() = max(L - L_low, L_high - L) <= g
for name, goal in (("error_bound", errQ <= errS + 2 * g), ("violation_bound", V <= (1 + 2 * g) / B), ("g_nonneg", g >= 0)):
    s = Solver(); s.set('timeout', 20000); s.add(hyp, Not(goal)); print(name, s.check())
