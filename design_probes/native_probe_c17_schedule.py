import warnings; warnings.filterwarnings("ignore")
import numpy as np, math, logging
logging.disable(logging.CRITICAL)
from fairlearn.adversarial._adversarial_mitigation import _AdversarialFairness
from fairlearn.adversarial._backend_engine import BackendEngine
class Rec(BackendEngine):
    model_class = list
    optim_class = type(None)
    def __init__(self, base, X, Y, A):
        self.base=base; self.calls=[]
    def train_step(self, X, Y, A):
        self.calls.append((X[:,0].tolist(),)); return (0.0,0.0)
    def evaluate(self, X): return np.zeros((len(X),1))
def spec(n,bs,epochs,max_iter,stop_at):
    if bs==-1: bs=n
    batches=math.ceil(n/bs)
    if epochs==-1: epochs=math.ceil(max_iter/batches)
    out=[]; cbs=[]
    for e in range(epochs):
        for b in range(batches):
            out.append((b*bs,min((b+1)*bs,n)))
            if max_iter!=-1 and len(out)>=max_iter: return out,cbs
            cbs.append(len(out))
            if stop_at is not None and len(out)==stop_at: return out,cbs
    return out,cbs
bad=[]; cnt=0
for n in range(1,8):
  for bs in [-1,1,2,3,5,7,10]:
    for epochs in [-1,1,2,3]:
      for max_iter in [-1,1,2,5]:
        if epochs==-1 and max_iter==-1: continue
        for stop_at in [None,1,3]:
            X=np.arange(n,dtype=float).reshape(-1,1); y=(np.arange(n)%2); 
            if n>=2: y[0]=0;y[1]=1
            seen=[]
            def cb(est, step, **kw):
                seen.append(step); return (stop_at is not None and step==stop_at)
            m=_AdversarialFairness(backend=Rec,predictor_model=[],adversary_model=[],predictor_loss=lambda a,b:0,adversary_loss=lambda a,b:0,predictor_function=lambda p:p,
                 epochs=epochs,batch_size=bs,max_iter=max_iter,shuffle=False,callbacks=cb, y_transform=None, sf_transform=None)
            try:
                m.fit(X,y.astype(float),sensitive_features=np.zeros(n))
            except Exception as e:
                bad.append((n,bs,epochs,max_iter,stop_at,'EXC',repr(e)[:80])); continue
            got=[(int(c[0][0]),int(c[0][-1])+1) for c in m.backendEngine_.calls]
            exp,ecb=spec(n,bs,epochs,max_iter,stop_at)
            cnt+=1
            if got!=exp or seen!=ecb or m.n_iter_!=len(exp): bad.append((n,bs,epochs,max_iter,stop_at,got[:6],exp[:6],seen,ecb))
print(cnt,"nbad",len(bad))
for b in bad[:6]: print(b)
