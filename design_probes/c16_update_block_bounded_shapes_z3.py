from z3 import *
import time, itertools
def check(r, c, engine):
    A = [[Real(f"A{i}{j}") for j in range(c)] for i in range(r)]
    P = [[Real(f"P{i}{j}") for j in range(c)] for i in range(r)]
    nn, alpha = Real("nn"), Real("alpha")
    s = Solver(); s.set("timeout", 30000)
    s.add(nn > 0, nn * nn == sum(A[i][j] * A[i][j] for i in range(r) for j in range(c)))   # torch.norm contract, tiny := 0
    U = [[A[i][j] / nn for j in range(c)] for i in range(r)]
    if engine == "torch":     # torch.sum(torch.inner(U, P)) : Gram matrix of rows, all entries summed
        proj = sum(sum(U[a][k] * P[b][k] for k in range(c)) for a in range(r) for b in range(r))
    else:                      # tf.reduce_sum(tf.multiply(P, U))
        proj = sum(P[i][j] * U[i][j] for i in range(r) for j in range(c))
    G = [[P[i][j] - proj * U[i][j] - alpha * A[i][j] for j in range(c)] for i in range(r)]
    orth = sum((G[i][j] + alpha * A[i][j]) * A[i][j] for i in range(r) for j in range(c))
    s.add(orth != 0)
    t = time.time(); res = s.check()
    out = f"{engine:6s} {r}x{c}: {'discharged' if res == unsat else res} {time.time()-t:.2f}s"
    if res == sat:
        m = s.model(); out += "  e.g. " + ", ".join(f"{d.name()}={m[d]}" for d in sorted(m.decls(), key=lambda d: d.name()) if d.name()[0] in "AP")[:160]
    print(out)
for eng in ("tf", "torch"):
    for r, c in ((1, 1), (1, 3), (2, 1), (2, 2), (3, 2)):
        check(r, c, eng)
