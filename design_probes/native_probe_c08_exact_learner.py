import warnings; warnings.filterwarnings("ignore")
import numpy as np, pandas as pd, itertools, logging
logging.disable(logging.CRITICAL)
from scipy.optimize import linprog
from fairlearn.reductions import ExponentiatedGradient, DemographicParity, EqualizedOdds, TruePositiveRateParity, FalsePositiveRateParity, ErrorRateParity, ErrorRate
exec(open(__import__('os').path.join(__import__('os').path.dirname(__import__('os').path.abspath(__file__)),'native_probe_c09_exact_learner.py')).read().split("rng=np.random.default_rng(2)")[0].split("logging.disable(logging.CRITICAL)")[1])
rng=np.random.default_rng(4); bad=[]; stats=[]
moms=[DemographicParity,EqualizedOdds,TruePositiveRateParity,FalsePositiveRateParity,ErrorRateParity]
for trial in range(120):
    k=rng.integers(2,4); G=rng.integers(2,4); n=rng.integers(6,16)
    while True:
        x=rng.integers(0,k,n); y=rng.integers(0,2,n); sf=rng.integers(0,G,n)
        if all(((sf==g)&(y==l)).any() for g in range(G) for l in (0,1)): break
    X=x.reshape(-1,1).astype(float)
    M=moms[trial%5]; kw=[{}, {'ratio_bound':0.8,'ratio_bound_slack':0.05}, {'difference_bound':0.1}][trial%3]
    eps=float(rng.choice([0.02,0.1,0.3])); mi=int(rng.choice([2,6,20,50])); lp=bool(rng.integers(0,2))
    eg=ExponentiatedGradient(Exact(k),M(**kw),eps=eps,max_iter=mi,run_linprog_step=lp)
    eg.fit(X,y,sensitive_features=sf)
    g=eg.best_gap_; B=1/eps
    w=eg.weights_
    if abs(w.sum()-1)>1e-9 or (w<-1e-12).any(): bad.append((trial,'notprob',w.values))
    cons=M(**kw); cons.load_data(X,y,sensitive_features=sf); obj=ErrorRate(); obj.load_data(X,y,sensitive_features=sf)
    H=allh(k)
    fH=[(lambda X_,t=t: t[np.asarray(X_)[:,0].astype(int)]) for t in H]
    errs=np.array([obj.gamma(f).iloc[0] for f in fH]); gams=np.array([cons.gamma(f).values for f in fH]); b=cons.bound().values
    # Q error/gamma
    errQ=sum(w[t]*obj.gamma(lambda X_,t=t: eg.predictors_[t].predict(X_)).iloc[0] for t in w.index if w[t]>0)
    gamQ=sum(w[t]*cons.gamma(lambda X_,t=t: eg.predictors_[t].predict(X_)).values for t in w.index if w[t]>0)
    res=linprog(errs,A_ub=gams.T,b_ub=b,A_eq=np.ones((1,len(H))),b_eq=[1],bounds=(0,1),method='highs')
    if res.status!=0: continue
    opt=res.fun
    if errQ>opt+2*g+1e-7: bad.append((trial,'err',errQ,opt,g,M.__name__,kw,eps,mi,lp))
    v=(gamQ-b).max()
    if v>(1+2*g)/B+1e-7: bad.append((trial,'viol',v,(1+2*g)/B,g))
    if eg.last_iter_<mi-1 and not (g<eg.nu): bad.append((trial,'early',g,eg.nu,eg.last_iter_,mi))
    stats.append((g, errQ-opt, v))
print("n",len(stats),"nbad",len(bad))
for b_ in bad[:8]: print(b_)
