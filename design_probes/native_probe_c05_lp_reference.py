import warnings; warnings.filterwarnings("ignore")
import numpy as np, pandas as pd, itertools
from scipy.optimize import linprog
from fairlearn.postprocessing import ThresholdOptimizer
from sklearn.base import BaseEstimator, ClassifierMixin
class Score(BaseEstimator, ClassifierMixin):
    def fit(self, X, y): self.classes_=np.array([0,1]); return self
    def decision_function(self, X): return np.asarray(X)[:,0]
def conf(y, pred):
    tp=((pred==1)&(y==1)).sum(); fp=((pred==1)&(y==0)).sum(); tn=((pred==0)&(y==0)).sum(); fn=((pred==0)&(y==1)).sum()
    return tp,fp,tn,fn
def met(name,c):
    tp,fp,tn,fn=c; n=tp+fp+tn+fn
    return {'selection_rate':(tp+fp)/n,'false_positive_rate':fp/(fp+tn),'false_negative_rate':fn/(fn+tp),'true_positive_rate':tp/(tp+fn),
            'true_negative_rate':tn/(tn+fp),'accuracy_score':(tp+tn)/n,'balanced_accuracy_score':.5*tp/(tp+fn)+.5*tn/(tn+fp)}[name]
XM = {'selection_rate_parity':'selection_rate','demographic_parity':'selection_rate','false_positive_rate_parity':'false_positive_rate',
 'false_negative_rate_parity':'false_negative_rate','true_positive_rate_parity':'true_positive_rate','true_negative_rate_parity':'true_negative_rate'}
def rules(scores, flip):
    lv = sorted(set(scores)); cuts=[np.inf]+[ (a+b)/2 for a,b in zip(lv[:-1],lv[1:])]+[-np.inf]
    out=[]
    for t in cuts:
        out.append((scores>t)*1)
        if flip: out.append((scores<t)*1)
    return out
rng=np.random.default_rng(5); worst=-1; bad=[]
for trial in range(300):
    G=rng.integers(2,4); n=rng.integers(2*G,12)
    while True:
        sf=rng.integers(0,G,n); y=rng.integers(0,2,n)
        if all(((sf==g)&(y==l)).any() for g in range(G) for l in (0,1)): break
    s=rng.integers(0,4,n)/3.0; X=s.reshape(-1,1)
    c=list(XM)[trial%6]; flip=bool(rng.integers(0,2)); gs=int(rng.choice([1,2,3,5,10]))
    obj=['accuracy_score','balanced_accuracy_score','selection_rate','true_positive_rate','true_negative_rate'][rng.integers(0,5)]
    to=ThresholdOptimizer(estimator=Score(),constraints=c,objective=obj,flip=flip,grid_size=gs,predict_method='decision_function')
    to.fit(X,y,sensitive_features=sf)
    p=to._pmf_predict(X,sensitive_features=sf)[:,1]
    # achieved objective: frequency-weighted mean of per-group objective under randomized rule (expected confusion)
    def exp_metric(name, yy, pp):
        tp=(pp*(yy==1)).sum(); fp=(pp*(yy==0)).sum(); fn=((1-pp)*(yy==1)).sum(); tn=((1-pp)*(yy==0)).sum()
        return met(name,(tp,fp,tn,fn))
    got=sum((sf==g).mean()*exp_metric(obj,y[sf==g],p[sf==g]) for g in range(G))
    # reference: for each grid x, per group LP max E[y] s.t. E[x]=x  (decouples per group)
    best=-np.inf
    for x in np.linspace(0,1,gs+1):
        tot=0; feas=True
        for g in range(G):
            yy=y[sf==g]; ss=s[sf==g]; R=rules(ss,flip)
            xs=np.array([met(XM[c],conf(yy,r)) for r in R]); ys=np.array([met(obj,conf(yy,r)) for r in R])
            res=linprog(-ys,A_eq=np.vstack([xs,np.ones(len(R))]),b_eq=[x,1],bounds=(0,1),method='highs')
            if res.status!=0: feas=False;break
            tot+=(sf==g).mean()*(-res.fun)
        if feas: best=max(best,tot)
    d=best-got
    if abs(d)>1e-7: bad.append((trial,c,obj,flip,gs,got,best,list(sf),list(y),list(np.round(s,2))))
print("nbad",len(bad))
for b in bad[:6]: print(b)
