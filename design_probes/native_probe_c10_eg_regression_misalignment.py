import warnings; warnings.filterwarnings("ignore")
import numpy as np, pandas as pd
from fairlearn.reductions import ExponentiatedGradient, BoundedGroupLoss, SquareLoss, ZeroOneLoss, AbsoluteLoss
from sklearn.linear_model import LinearRegression
from sklearn.tree import DecisionTreeRegressor
found=0
for seed in range(200):
    rng = np.random.default_rng(seed)
    n=30
    X = rng.normal(size=(n,2)); sf = rng.integers(0,2,n)
    yr = np.clip(0.5+0.3*X[:,0] + 0.3*sf*X[:,1] + rng.normal(size=n)*.1,0,1)
    for lp in (False, True):
        eg = ExponentiatedGradient(DecisionTreeRegressor(max_depth=2), BoundedGroupLoss(SquareLoss(0,1), upper_bound=0.02), eps=0.05, run_linprog_step=lp, max_iter=15)
        eg.fit(X,yr,sensitive_features=sf)
        idx = list(eg.weights_.index)
        if idx != sorted(idx):
            nz = eg.weights_[eg.weights_>0]
            found+=1
            if found<=3:
                print("seed",seed,"lp",lp,"weights index", idx, "weights", np.round(eg.weights_.values,3))
                pmf = eg._pmf_predict(X[:2])
                print(" pmf cols", list(pmf.columns))
                # the probability that predict returns predictor t's value should be weights_[t]
                t_hi = eg.weights_.idxmax(); 
                cnt = 0; N=300
                for s in range(N):
                    r = eg.predict(X[:1], random_state=s)[0]
                    cnt += (abs(r - pmf.iloc[0][t_hi])<1e-12)
                print(" heaviest predictor", t_hi, "w=",eg.weights_[t_hi], "empirical freq of its value:", cnt/N)
print("found", found)
