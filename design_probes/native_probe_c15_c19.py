import warnings; warnings.filterwarnings("ignore")
import numpy as np, pandas as pd
from fairlearn.preprocessing import CorrelationRemover
rng = np.random.default_rng(0)
X = rng.normal(size=(20,4)); X[:,1] += 5
cr = CorrelationRemover(sensitive_feature_ids=[0,1])
Z = cr.fit_transform(X)
print("cov 2 sens:", np.cov(np.hstack([Z, X[:,:2]]).T)[:2,2:])
cr = CorrelationRemover(sensitive_feature_ids=[0])
Z = cr.fit_transform(X)
print("cov 1 sens:", np.cov(np.hstack([Z, X[:,:1]]).T)[:3,3:])
print(cr.get_params())
# EG refit
from fairlearn.reductions import ExponentiatedGradient, DemographicParity, GridSearch, BoundedGroupLoss, ZeroOneLoss, SquareLoss
from sklearn.linear_model import LogisticRegression, LinearRegression
X = rng.normal(size=(40,2)); y = (X[:,0]+rng.normal(size=40)*.3>0).astype(int); sf = rng.integers(0,2,40)
eg = ExponentiatedGradient(LogisticRegression(), DemographicParity())
r = eg.fit(X,y,sensitive_features=sf)
print("EG fit returns self:", r is eg, "nu param:", eg.get_params()['nu'])
try:
    eg.fit(X,y,sensitive_features=sf); print("refit ok")
except BaseException as e: print("EG refit EXC", type(e).__name__, e)
gs = GridSearch(LogisticRegression(), DemographicParity(), grid_size=5)
r = gs.fit(X,y,sensitive_features=sf)
print("GS fit returns:", r)
try:
    gs.fit(X,y,sensitive_features=sf); print("refit ok")
except BaseException as e: print("GS refit EXC", type(e).__name__, e)
# EG regression predict
yr = X[:,0] + 0.5*sf + rng.normal(size=40)*.1
yr = (yr-yr.min())/(yr.max()-yr.min())
eg = ExponentiatedGradient(LinearRegression(), BoundedGroupLoss(SquareLoss(0,1), upper_bound=0.02), eps=0.01)
eg.fit(X,yr,sensitive_features=sf)
print(eg.weights_)
print(eg.predict(X[:3], random_state=0))
