import deal
from fairlearn.reductions._moments.utility_parity import _combine_event_and_control as _real
import math

@deal.ensure(lambda event, control, result: not (isinstance(event, float) and math.isnan(event)) or (isinstance(result, float) and math.isnan(result)))
def combine(event: float, control: str) -> object:
    return _real(event, control)
