"""FEASIBILITY PROBE (throw-away): point-wise lifting of vectorised pandas statements.

Target: the loop body of UtilityParity.load_data (fairlearn/reductions/_moments/utility_parity.py:187-196)
that fills the matrix U.  Each statement is taken from the real AST and evaluated at a generic row i:
  self.tags[_EVENT]     -> ev_i  (event id of row i; -1 encodes the null event)
  self.tags[_GROUP_ID]  -> grp_i
  self.prob_event[e]    -> PE(e) ;  self.prob_group_event[e, g] -> PEG(e, g) ;  self.ratio -> r
  1 * (col == v), products, quotients  -> scalar arithmetic on the i-th elements
  self.U[sign, e, g] = rhs             -> records U(i, sign, e, g)
Obligation (from the property text): U(i,+,e,g) = [ev_i=e]/P(e) - r*[ev_i=e & grp_i=g]/P(e,g), and the mirrored '-' column.
run: python3-vt pointwise_probe_U_matrix.py [--mutate]
"""
import ast, sys
from z3 import Int, Real, Function, IntSort, RealSort, If, And, Solver, Not, unsat, RealVal, BoolRef, is_bool

SRC = "/repo/fairlearn/reductions/_moments/utility_parity.py"
ev_i, grp_i, e, g = Int("ev_i"), Int("grp_i"), Int("e"), Int("g")
r = Real("r")
PE = Function("PE", IntSort(), RealSort())
PEG = Function("PEG", IntSort(), IntSort(), RealSort())


def num(v):
    return If(v, RealVal(1), RealVal(0)) if is_bool(v) else v


def ev(x, env):
    if isinstance(x, ast.Constant):
        return RealVal(x.value) if isinstance(x.value, (int, float)) else x.value
    if isinstance(x, ast.Name):
        return env[x.id]
    if isinstance(x, ast.Attribute) and ast.unparse(x) == "self.ratio":
        return r
    if isinstance(x, ast.Subscript):
        base = ast.unparse(x.value)
        if base == "self.tags":
            return {"_EVENT": ev_i, "_GROUP_ID": grp_i}[ast.unparse(x.slice)]
        if base == "self.prob_event":
            return PE(ev(x.slice, env))
        if base == "self.prob_group_event":
            a, b = x.slice.elts
            return PEG(ev(a, env), ev(b, env))
    if isinstance(x, ast.UnaryOp) and isinstance(x.op, ast.USub):
        return -num(ev(x.operand, env))
    if isinstance(x, ast.Compare) and isinstance(x.ops[0], ast.Eq):
        a, b = ev(x.left, env), ev(x.comparators[0], env)
        return And(a == b, a != -1)      # pandas: a null event compares unequal to everything
    if isinstance(x, ast.BinOp):
        a, b = num(ev(x.left, env)), num(ev(x.right, env))
        return {ast.Add: lambda: a + b, ast.Sub: lambda: a - b, ast.Mult: lambda: a * b, ast.Div: lambda: a / b}[type(x.op)]()
    raise NotImplementedError(ast.dump(x))


tree = ast.parse(open(SRC).read())
cls = [n for n in ast.walk(tree) if isinstance(n, ast.ClassDef) and n.name == "UtilityParity"][0]
ld = [f for f in cls.body if isinstance(f, ast.FunctionDef) and f.name == "load_data"][0]
loop = [n for n in ast.walk(ld) if isinstance(n, ast.For) and ast.unparse(n.iter) == "self.prob_group_event.index"][0]
if "--mutate" in sys.argv:   # put the ratio on the wrong term of the '+' column
    src = ast.unparse(loop).replace("event_select / self.prob_event[e] + -self.ratio * group_event_select", "-self.ratio * event_select / self.prob_event[e] + group_event_select", 1)
    loop = ast.parse(src).body[0]
env = {"e": e, "g": g}
U = {}
for st in loop.body:
    tgt = st.targets[0]
    if isinstance(tgt, ast.Name):
        env[tgt.id] = ev(st.value, env)
    else:
        assert ast.unparse(tgt.value) == "self.U"
        sign = tgt.slice.elts[0].value
        U[sign] = num(ev(st.value, env))
ind_e = If(And(ev_i == e, ev_i != -1), RealVal(1), RealVal(0))
ind_eg = If(And(ev_i == e, ev_i != -1, grp_i == g), RealVal(1), RealVal(0))
spec = {"+": ind_e / PE(e) - r * ind_eg / PEG(e, g), "-": -r * ind_e / PE(e) + ind_eg / PEG(e, g)}
for sign in "+-":
    s = Solver(); s.set("timeout", 10000)
    s.add(PE(e) > 0, PEG(e, g) > 0, e != -1, g != -1, grp_i != -1, Not(U[sign] == spec[sign]))  # groups are never null (precondition)
    res = s.check()
    print(f"U[{sign}] matches the documented formula:", "discharged" if res == unsat else f"{res} {s.model() if str(res)=='sat' else ''}")
