import warnings; warnings.filterwarnings("ignore")
import numpy as np, pandas as pd
from fairlearn.reductions import TruePositiveRateParity, DemographicParity, EqualizedOdds
X = np.arange(8).reshape(-1,1)
y = [1,1,0,0,1,0,1,0]
sf = ['a','a','a','b','b','b','a','b']
cf = ['x','x','y','y','x','x','y','y']
m = TruePositiveRateParity()
m.load_data(X, y, sensitive_features=sf, control_features=cf)
print(m.index)
print(m.tags)
print(m.gamma(lambda X: np.array([1,0,1,0,1,1,0,0])))
