# feasibility probe: symbolic reals flowing through the REAL fairlearn/pandas/numpy code as object-dtype elements
import warnings; warnings.filterwarnings("ignore")
import z3, numpy as np, pandas as pd, numbers
class SR:
    __array_priority__ = 1000
    def __init__(s, t): s.t = t if z3.is_expr(t) else z3.RealVal(t)
    @staticmethod
    def lift(o):
        if isinstance(o, SR): return o.t
        if isinstance(o, (bool, np.bool_)): return z3.RealVal(int(o))
        if isinstance(o, (int, np.integer)): return z3.RealVal(int(o))
        if isinstance(o, (float, np.floating)):
            from fractions import Fraction
            f = Fraction(float(o)); return z3.RealVal(f.numerator)/z3.RealVal(f.denominator)
        return NotImplemented
    def _b(s, o, f):
        t = SR.lift(o)
        return NotImplemented if t is NotImplemented else SR(z3.simplify(f(s.t, t)))
    def __add__(s,o): return s._b(o, lambda a,b: a+b)
    __radd__ = __add__
    def __sub__(s,o): return s._b(o, lambda a,b: a-b)
    def __rsub__(s,o): return s._b(o, lambda a,b: b-a)
    def __mul__(s,o): return s._b(o, lambda a,b: a*b)
    __rmul__ = __mul__
    def __truediv__(s,o): return s._b(o, lambda a,b: a/b)
    def __rtruediv__(s,o): return s._b(o, lambda a,b: b/a)
    def __neg__(s): return SR(-s.t)
    def __abs__(s): return SR(z3.If(s.t>=0, s.t, -s.t))
    def __repr__(s): return f"SR({s.t})"
    def __bool__(s): raise RuntimeError("branch on symbolic")
def svec(name, n): return np.array([SR(z3.Real(f"{name}{i}")) for i in range(n)], dtype=object)

from fairlearn.reductions import DemographicParity, EqualizedOdds, ErrorRate
X = np.zeros((6,1)); y=[1,0,1,1,0,0]; sf=['a','a','b','b','c','c']
m = EqualizedOdds(ratio_bound=0.8)
m.load_data(X,y,sensitive_features=sf)
h = svec('h',6)
g = m.gamma(lambda X: h)
print(type(g), g.dtype, len(g))
print(g.iloc[0])
lam = pd.Series(svec('l', len(m.index)), index=m.index)
w = m.signed_weights(lam)
print(type(w), w.iloc[0])
# identity: lam.gamma(h) - lam.gamma(h') == -(1/n) sum w_i (h_i - h'_i)
h2 = svec('k',6)
g2 = m.gamma(lambda X: h2)
lhs = sum((lam.values[i]*(g.values[i]-g2.values[i]) for i in range(len(lam))), SR(0))
rhs = sum((w.values[i]*(h[i]-h2[i]) for i in range(6)), SR(0)) / (-6)
s = z3.Solver(); s.add(lhs.t != rhs.t); print("identity:", s.check())
