"""FEASIBILITY PROBE (throw-away): frame/effect analysis for C19 on the real sources.

For every estimator class: constructor parameter names (from __init__), and for fit/predict-like
methods the attribute writes on `self` (following self.method() calls inside the class and its
repo base classes), reads that happen before any write in the same call, calls of mutating methods
on objects held by parameters, and the returned expression.
"""
import ast, sys, os
REPO = "/repo/fairlearn"
TARGETS = {
 "reductions/_exponentiated_gradient/exponentiated_gradient.py": ["ExponentiatedGradient"],
 "reductions/_grid_search/grid_search.py": ["GridSearch"],
 "postprocessing/_threshold_optimizer.py": ["ThresholdOptimizer"],
 "postprocessing/_interpolated_thresholder.py": ["InterpolatedThresholder"],
 "preprocessing/_correlation_remover.py": ["CorrelationRemover"],
 "adversarial/_adversarial_mitigation.py": ["_AdversarialFairness"],
}
METHODS = ["fit", "predict", "_pmf_predict", "predict_proba", "transform", "partial_fit"]


def cls_methods(tree, name):
    c = [n for n in ast.walk(tree) if isinstance(n, ast.ClassDef) and n.name == name][0]
    return {f.name: f for f in c.body if isinstance(f, ast.FunctionDef)}


def params(init):
    a = init.args
    return [x.arg for x in a.args[1:] + a.kwonlyargs]


def mangle(cls, name):
    return name  # probe: private-name mangling ignored (`self.__setup` is looked up as `__setup`)


def analyse(ms, fname, seen=None, written=None):
    """returns (writes, reads_before_write, param_object_calls, returns) in source order (flow-insensitive within branches)"""
    seen = seen or set()
    if fname in seen or fname not in ms:
        return [], [], [], []
    seen.add(fname)
    f = ms[fname]
    writes, rbw, pcalls, rets = [], [], [], []
    written = set() if written is None else written
    for node in ast.walk(f):       # ast.walk is breadth-first; good enough for a probe: order approximated by lineno sort below
        pass
    nodes = sorted([n for n in ast.walk(f) if hasattr(n, "lineno")], key=lambda n: (n.lineno, n.col_offset))
    for n in nodes:
        if isinstance(n, ast.Attribute) and isinstance(n.value, ast.Name) and n.value.id == "self":
            if isinstance(n.ctx, ast.Store):
                writes.append((n.attr, n.lineno)); written.add(n.attr)
            elif isinstance(n.ctx, ast.Load) and n.attr not in written and n.attr not in ms:
                rbw.append((n.attr, n.lineno))
        if isinstance(n, ast.Call) and isinstance(n.func, ast.Attribute):
            v = n.func.value
            # self.m(...)
            if isinstance(v, ast.Name) and v.id == "self" and n.func.attr.lstrip("_") and n.func.attr in ms:
                w, r, p, _ = analyse(ms, n.func.attr, seen, written)
                writes += w; rbw += r; pcalls += p
            # self.<param>.method(...)
            if isinstance(v, ast.Attribute) and isinstance(v.value, ast.Name) and v.value.id == "self":
                pcalls.append((v.attr, n.func.attr, n.lineno))
            # hasattr(self, "x") is a read too
        if isinstance(n, ast.Call) and isinstance(n.func, ast.Name) and n.func.id == "hasattr" and len(n.args) == 2 \
                and isinstance(n.args[0], ast.Name) and n.args[0].id == "self" and isinstance(n.args[1], ast.Constant):
            if n.args[1].value not in written:
                rbw.append((n.args[1].value + " (hasattr)", n.lineno))
        if isinstance(n, ast.Return):
            rets.append((ast.unparse(n.value) if n.value else "None", n.lineno))
    return writes, rbw, pcalls, rets


for path, classes in TARGETS.items():
    tree = ast.parse(open(os.path.join(REPO, path)).read())
    for cname in classes:
        ms = cls_methods(tree, cname)
        ps = params(ms["__init__"])
        print(f"== {cname}  params={ps}")
        for m in METHODS:
            if m not in ms:
                continue
            w, r, p, rets = analyse(ms, m)
            f1 = sorted({(a, l) for a, l in w if a in ps})
            f3 = sorted({(a, l) for a, l in r if a.split(" ")[0] not in ps})
            f2 = sorted({(a, meth, l) for a, meth, l in p if a in ps and meth in ("load_data", "fit")})
            print(f"  {m}: writes={sorted({a for a,_ in w})}")
            if m in ("fit", "partial_fit"):
                print(f"     F1 param writes      : {f1}")
                print(f"     F2 calls on param obj: {f2}")
                print(f"     F3 reads before write: {f3}")
                print(f"     F4 returns           : {sorted(set(x for x,_ in rets))}")
            else:
                print(f"     F5 writes (must be empty): {sorted(set(w))}")
