from z3 import *
import time
n1,p1,n2,p2 = Strings('n1 p1 n2 p2')
s=Solver(); s.set('timeout',20000)
s.add(Or(n1!=n2,p1!=p2), Concat(n1,StringVal("_"),p1)==Concat(n2,StringVal("_"),p2))
t=time.time(); print(s.check(), time.time()-t); print(s.model())
# fixed variant: length-prefixed? e.g. f"{len(name)}:{name}_{param}"
