import warnings; warnings.filterwarnings("ignore")
import numpy as np, pandas as pd
from fairlearn.metrics import MetricFrame
def wsum(y_true, y_pred, b_c=None, c=None):
    w = b_c if b_c is not None else c
    return float(np.sum(w))
mf = MetricFrame(metrics={"a": wsum, "a_b": wsum}, y_true=[1,0,1,1], y_pred=[1,0,1,1], sensitive_features=['g','g','h','h'],
   sample_params={"a": {"b_c": [1,1,1,1]}, "a_b": {"c": [10,10,10,10]}})
print(mf.by_group)
# feature named y_pred
from fairlearn.metrics import selection_rate
sf = pd.Series(['g','g','h','h'], name="y_pred")
try:
    mf = MetricFrame(metrics=selection_rate, y_true=[1,0,1,1], y_pred=[1,0,0,0], sensitive_features=sf)
    print(mf.by_group, mf.overall)
except Exception as e: print("EXC", type(e).__name__, e)
# index labels
yt = pd.Series([1,0,1,1], index=[3,2,1,0]); yp = pd.Series([1,0,0,0], index=[0,1,2,3]); s = pd.Series(['g','g','h','h'], index=[9,9,9,9])
mf = MetricFrame(metrics=selection_rate, y_true=yt, y_pred=yp, sensitive_features=s, sample_params={'sample_weight': pd.Series([1,2,3,4], index=[5,4,3,2])})
print(mf.by_group)
