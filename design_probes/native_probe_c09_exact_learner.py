import warnings; warnings.filterwarnings("ignore")
import numpy as np, pandas as pd, itertools, logging
logging.disable(logging.CRITICAL)
from fairlearn.reductions import GridSearch, ExponentiatedGradient, DemographicParity, EqualizedOdds, TruePositiveRateParity, FalsePositiveRateParity, ErrorRateParity, ErrorRate
from sklearn.base import BaseEstimator, ClassifierMixin
class Exact(BaseEstimator, ClassifierMixin):
    def __init__(self, k=3): self.k=k
    def fit(self, X, y, sample_weight=None):
        x=np.asarray(X)[:,0].astype(int); y=np.asarray(y); w=np.ones(len(y)) if sample_weight is None else np.asarray(sample_weight,dtype=float)
        self.table_=np.zeros(self.k,dtype=int)
        for v in range(self.k):
            m=x==v
            self.table_[v]= 1 if w[m&(y==1)].sum()>w[m&(y==0)].sum() else 0
        self.classes_=np.array([0,1]); return self
    def predict(self, X): return self.table_[np.asarray(X)[:,0].astype(int)]
def allh(k): return [np.array(t) for t in itertools.product([0,1],repeat=k)]
rng=np.random.default_rng(2); bad=[]
moms=[DemographicParity,EqualizedOdds,TruePositiveRateParity,FalsePositiveRateParity,ErrorRateParity]
for trial in range(150):
    k=rng.integers(2,4); G=rng.integers(2,4); n=rng.integers(6,14)
    while True:
        x=rng.integers(0,k,n); y=rng.integers(0,2,n); sf=rng.integers(0,G,n)
        if all(((sf==g)&(y==l)).any() for g in range(G) for l in (0,1)): break
    X=x.reshape(-1,1).astype(float)
    M=moms[trial%5]; kw={} if trial%2 else {'ratio_bound':0.8}
    gsz=int(rng.integers(2,15)); gl=float(rng.choice([0.5,2.0,3.0])); cw=float(rng.choice([0,.3,.5,1]))
    gs=GridSearch(Exact(k),M(**kw),grid_size=gsz,grid_limit=gl,constraint_weight=cw)
    gs.fit(X,y,sensitive_features=sf)
    L=gs.lambda_vecs_
    if L.shape[1]!=gsz: bad.append((trial,'count',L.shape[1],gsz))
    if (L.values<-1e-12).any(): bad.append((trial,'neg'))
    if (L.abs().sum(axis=0)>gl+1e-9).any(): bad.append((trial,'L1',L.abs().sum(axis=0).max(),gl))
    if len({tuple(np.round(L[c].values,12)) for c in L.columns})!=gsz: bad.append((trial,'dup'))
    # best response + recorded values
    cons=M(**kw); cons.load_data(X,y,sensitive_features=sf); obj=ErrorRate(); obj.load_data(X,y,sensitive_features=sf)
    H=allh(k)
    for j,c in enumerate(L.columns):
        lam=L[c]; h=gs.predictors_[j]
        val=lambda f: obj.gamma(f).iloc[0]+cons.gamma(f).dot(lam)
        mine=val(lambda X_: h.predict(X_)); best=min(val(lambda X_,t=t: t[np.asarray(X_)[:,0].astype(int)]) for t in H)
        if mine>best+1e-9: bad.append((trial,'notbest',j,mine,best,M.__name__,kw))
        if abs(gs.objectives_[j]-obj.gamma(lambda X_: h.predict(X_)).iloc[0])>1e-12: bad.append((trial,'obj'))
        if not np.allclose(gs.gammas_[c].values, cons.gamma(lambda X_: h.predict(X_)).values): bad.append((trial,'gam'))
    losses=[(1-cw)*gs.objectives_[j]+cw*gs.gammas_[c].max() for j,c in enumerate(L.columns)]
    if gs.best_idx_!=int(np.argmin(losses)): bad.append((trial,'argmin',gs.best_idx_,int(np.argmin(losses))))
print("nbad",len(bad)); 
for b in bad[:8]: print(b)
