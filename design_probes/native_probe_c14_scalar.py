import warnings; warnings.filterwarnings("ignore")
import numpy as np, pandas as pd
from fairlearn.metrics import selection_rate, mean_prediction, true_positive_rate, MetricFrame, count, demographic_parity_difference
print(repr(selection_rate([1],[1],sample_weight=[2.0])))
print(repr(selection_rate([1,0],[1,0],sample_weight=[2.0,1.0])))
print(repr(mean_prediction([1],[1],sample_weight=[2.0])))
print(repr(true_positive_rate([1],[1],sample_weight=[2.0])))
print(repr(selection_rate([1],[1])))
try:
    print(demographic_parity_difference([1,0,1],[1,0,1],sensitive_features=['a','b','b'],sample_weight=[2,1,1]))
except Exception as e:
    print("EXC", type(e), e)
mf = MetricFrame(metrics=selection_rate, y_true=[1,0,1],y_pred=[1,0,1],sensitive_features=['a','b','b'],sample_params={'sample_weight':[2,1,1]})
print(mf.by_group, mf.by_group.dtype)
try: print(mf.difference())
except Exception as e: print("EXC", type(e), e)
try: print(mf.group_min())
except Exception as e: print("EXC", type(e), e)
# string labels single unique
print(repr(true_positive_rate(['a','a'],['a','a'],pos_label='a')))
