"""FEASIBILITY PROBE (throw-away, not the framework).

Third shape of target, the hardest P-labelled function of the design:
fairlearn/postprocessing/_tradeoff_curve_utilities.py::_calculate_tradeoff_points
  * a while loop with a nested while loop over Python lists with a sentinel (-inf) element,
  * `count[labels[i]] += 1` (symbolic index into a 2-element list),
  * extended reals (np.inf thresholds, midpoints with the -inf sentinel),
  * calls that are inlined from the real source (`_extend_confusion_matrix`, the METRIC_DICT lambdas),
  * a for loop over a concrete list of tuples (unrolled), three result lists + ghost `cut`.

What is proved (for each concrete (x_metric, y_metric, flip); all inputs otherwise symbolic, any n):
  every emitted row k has a threshold t_k and a cut position c_k such that
     Sep(t_k, c_k):  scores[j] > t_k for j < c_k   and   scores[j] < t_k for c_k <= j < n
  (so `score > t_k` selects exactly the first c_k rows, `score < t_k` exactly the others), and
     x_k, y_k = the x/y metric of the confusion counts of that selection (flipped for '<'),
  the first row has c = 0, the loop ends with a row whose c = n, no list index is out of range,
  no division by zero, and the degenerate-label guard raises.

Contract of the callee `_get_scores_labels_and_counts` (assumed here, its own obligation in the framework):
  scores[0..n) finite and non-increasing, labels in {0,1}, n_positive = cnt(1,n), n_negative = cnt(0,n).

run: python3-vt pyvc_probe_tradeoff_points.py [--mutate]
"""
import ast
import sys
import time
import itertools
from z3 import (And, Or, Not, If, Implies, Int, Real, Bool, BoolVal, IntVal, RealVal, Function, IntSort, RealSort, BoolSort,
                ForAll, Select, Store, ArraySort, Const, Solver, unsat, sat, MultiPattern, is_bool, is_int, ToReal)

SRC = "/repo/fairlearn/postprocessing/_tradeoff_curve_utilities.py"
FRESH = [0]


def fresh(name, sort=None):
    FRESH[0] += 1
    return Const(f"{name}!{FRESH[0]}", IntSort() if sort is None else sort)


# ---------------------------------------------------------------- value model
Sv = Function("Sv", IntSort(), RealSort())        # finite score of row j (0 <= j < n)
Lb = Function("Lb", IntSort(), IntSort())          # label of row j
CNT = Function("cnt", IntSort(), IntSort(), IntSort())   # cnt(v, i) = #{j < i : Lb(j) = v}
N = Int("n")


class Ext:                                          # extended real: +inf / -inf / finite
    def __init__(self, pinf, ninf, val):
        self.pinf, self.ninf, self.val = pinf, ninf, val

    @staticmethod
    def fin(v):
        return Ext(BoolVal(False), BoolVal(False), v)

    def eq(self, o):
        return Or(And(self.pinf, o.pinf), And(self.ninf, o.ninf),
                  And(Not(self.pinf), Not(self.ninf), Not(o.pinf), Not(o.ninf), self.val == o.val))

    def add(self, o):                               # only (finite or +inf) + (finite or -inf) occurs; inf-inf is excluded by an obligation
        return Ext(Or(self.pinf, o.pinf), Or(self.ninf, o.ninf), self.val + o.val)

    def half(self):
        return Ext(self.pinf, self.ninf, self.val / 2)


def gt_ext(v, t):                                   # finite v > t
    return Or(t.ninf, And(Not(t.pinf), v > t.val))


def lt_ext(v, t):
    return Or(t.pinf, And(Not(t.ninf), v < t.val))


class ScoreList:                                    # the list `scores` after append(-inf): index n is the sentinel
    def get(self, i):
        return Ext(BoolVal(False), i == N, Sv(i))
    n_items = None


class LabelList:
    pass


class PyList:                                       # concrete-length python list of symbolic values
    def __init__(self, items):
        self.items = list(items)


class Rows:                                         # the three result lists + ghost cut, as parallel arrays + length, eager overlay
    FIELDS = ("x", "y", "op", "tp", "tn", "tv", "cut")   # op: 0 '>' 1 '<' ; threshold = (tp, tn, tv)

    def __init__(self, arrs, n, over=()):
        self.arrs, self.n, self.over = arrs, n, tuple(over)

    def get(self, f, k):
        t = Select(self.arrs[f], k)
        for (idx, vals) in self.over:
            t = If(k == idx, vals[f], t)
        return t

    def append(self, vals):
        return Rows(self.arrs, self.n + 1, self.over + ((self.n, vals),))


def sort_of(f):
    return {"x": RealSort(), "y": RealSort(), "tv": RealSort(), "tp": BoolSort(), "tn": BoolSort()}.get(f, IntSort())


class St:
    def __init__(self):
        self.env, self.pc = {}, []

    def clone(self):
        s = St()
        s.env, s.pc = dict(self.env), list(self.pc)
        return s


def real(v):
    return ToReal(v) if is_int(v) else v


class Exec:
    def __init__(self, module, contract, x_metric, y_metric, flip):
        self.module, self.c = module, contract
        self.cfg = {"x_metric": x_metric, "y_metric": y_metric, "flip": flip}
        self.obligations = []
        self.metric_dict = {}
        for n in module.body:                       # METRIC_DICT = {"name": lambda x: ...}  taken from the real module
            if isinstance(n, ast.Assign) and getattr(n.targets[0], "id", "") == "METRIC_DICT":
                for k, v in zip(n.value.keys, n.value.values):
                    self.metric_dict[k.value] = v
        self.funcs = {n.name: n for n in module.body if isinstance(n, ast.FunctionDef)}

    def oblige(self, name, st, goals):
        for k, g in enumerate(goals):
            self.obligations.append((f"{name}#{k}", list(st.pc), g))

    # ------------------------------------------------ expressions
    def ev(self, e, st):
        if isinstance(e, ast.Constant):
            if isinstance(e.value, bool):
                return BoolVal(e.value)
            if isinstance(e.value, int):
                return IntVal(e.value)
            if isinstance(e.value, float):
                return RealVal(e.value)
            return e.value
        if isinstance(e, ast.Name):
            if e.id in self.cfg:
                return self.cfg[e.id]
            return st.env[e.id]
        if isinstance(e, ast.Attribute):
            src = ast.unparse(e)
            if src == "np.inf":
                return Ext(BoolVal(True), BoolVal(False), RealVal(0))
            if src == "np.nan":
                return "nan"
            base = self.ev(e.value, st)
            if isinstance(base, dict):              # Bunch field
                return base[e.attr]
            raise NotImplementedError(src)
        if isinstance(e, ast.UnaryOp) and isinstance(e.op, ast.USub):
            v = self.ev(e.operand, st)
            if isinstance(v, Ext):
                return Ext(v.ninf, v.pinf, -v.val)
            return -v
        if isinstance(e, ast.List):
            return PyList([self.ev(x, st) for x in e.elts])
        if isinstance(e, ast.Tuple):
            return tuple(self.ev(x, st) for x in e.elts)
        if isinstance(e, ast.Subscript):
            base = self.ev(e.value, st)
            if isinstance(base, dict) and not isinstance(e.slice, ast.Constant):     # METRIC_DICT[x_metric]
                return ("lambda", self.metric_dict[self.ev(e.slice, st)])
            idx = self.ev(e.slice, st)
            if isinstance(base, ScoreList):
                self.oblige("scores_index_in_bounds@%d" % e.lineno, st, [And(0 <= idx, idx <= N)])
                return base.get(idx)
            if isinstance(base, LabelList):
                self.oblige("labels_index_is_a_real_row@%d" % e.lineno, st, [And(0 <= idx, idx < N)])
                return Lb(idx)
            if isinstance(base, PyList):
                if isinstance(e.slice, ast.Constant):
                    return base.items[e.slice.value]
                self.oblige("count_index_in_range@%d" % e.lineno, st, [Or(*[idx == k for k in range(len(base.items))])])
                out = base.items[-1]
                for k in range(len(base.items) - 2, -1, -1):
                    out = If(idx == k, base.items[k], out)
                return out
            raise NotImplementedError(ast.unparse(e))
        if isinstance(e, ast.BinOp):
            a, b = self.ev(e.left, st), self.ev(e.right, st)
            if isinstance(a, Ext) or isinstance(b, Ext):
                a = a if isinstance(a, Ext) else Ext.fin(real(a))
                b = b if isinstance(b, Ext) else Ext.fin(real(b))
                if isinstance(e.op, ast.Add):
                    self.oblige("no_inf_minus_inf@%d" % e.lineno, st, [Not(Or(And(a.pinf, b.ninf), And(a.ninf, b.pinf)))])
                    return a.add(b)
                if isinstance(e.op, ast.Div):
                    assert ast.unparse(e.right) == "2"
                    return a.half()
                raise NotImplementedError("ext op")
            if isinstance(e.op, ast.Div):
                self.oblige("no_division_by_zero@%d" % e.lineno, st, [b != 0])
                return real(a) / real(b)
            if isinstance(e.op, ast.Mult) and (not is_int(a) or not is_int(b)):
                a, b = real(a), real(b)
            return {ast.Add: lambda: a + b, ast.Sub: lambda: a - b, ast.Mult: lambda: a * b}[type(e.op)]()
        if isinstance(e, ast.BoolOp):
            vs = [self.ev(v, st) for v in e.values]
            return And(*vs) if isinstance(e.op, ast.And) else Or(*vs)
        if isinstance(e, ast.Compare) and len(e.ops) == 1:
            a, b = self.ev(e.left, st), self.ev(e.comparators[0], st)
            if isinstance(a, Rows) and isinstance(b, PyList) and not b.items:      # x_list == []
                return a.n == 0
            if isinstance(a, Ext) or isinstance(b, Ext):
                assert isinstance(e.ops[0], ast.Eq)
                return a.eq(b)
            return {ast.Eq: lambda: a == b, ast.Lt: lambda: a < b, ast.LtE: lambda: a <= b, ast.Gt: lambda: a > b,
                    ast.GtE: lambda: a >= b}[type(e.ops[0])]()
        if isinstance(e, ast.Call):
            f = ast.unparse(e.func)
            if f in self.funcs and f == "_extend_confusion_matrix":         # inline the real callee: `return Bunch(k=expr, ...)`
                callee = self.funcs[f]
                loc = St()
                loc.pc = st.pc
                for kw in e.keywords:
                    loc.env[kw.arg] = self.ev(kw.value, st)
                ret = [s for s in callee.body if isinstance(s, ast.Return)][0].value
                assert ast.unparse(ret.func) == "Bunch"
                return {kw.arg: self.ev(kw.value, loc) for kw in ret.keywords}
            if isinstance(e.func, ast.Subscript):                            # METRIC_DICT[name](counts)
                lam = self.ev(e.func, st)[1]
                loc = St()
                loc.pc = st.pc
                loc.env[lam.args.args[0].arg] = self.ev(e.args[0], st)
                save, self.obligations_ctx = None, None
                out = self.ev(lam.body, loc)
                return out
            if f == "ThresholdOperation":
                op, thr = self.ev(e.args[0], st), self.ev(e.args[1], st)
                return ("op", 0 if op == ">" else 1, thr)
            if f == "DEGENERATE_LABELS_ERROR_MESSAGE.format" or f == "ValueError":
                return "exc"
        raise NotImplementedError(ast.dump(e)[:300])

    # ------------------------------------------------ statements
    def block(self, stmts, st):
        outs = [(st, "fall")]
        for s in stmts:
            nxt = []
            for (s0, status) in outs:
                nxt.extend(self.stmt(s, s0) if status == "fall" else [(s0, status)])
            outs = nxt
        return outs

    def stmt(self, s, st):
        if isinstance(s, ast.Expr) and isinstance(s.value, ast.Constant):
            return [(st, "fall")]
        if isinstance(s, ast.Assign):
            t = s.targets[0]
            src = ast.unparse(s.value)
            if src == "_get_scores_labels_and_counts(data)":                 # callee contract
                st.env.update({"scores": "scores_raw", "labels": "labels_raw", "n": N, "n_positive": CNT(1, N), "n_negative": CNT(0, N)})
                st.pc += self.c.callee_post()
                return [(st, "fall")]
            val = self.ev(s.value, st)
            if isinstance(t, ast.Name):
                st.env[t.id] = val
            elif isinstance(t, ast.Tuple) and isinstance(val, tuple):
                for a, b in zip(t.elts, val):
                    st.env[a.id] = Rows(st.env["$rows0"].arrs, IntVal(0)) if isinstance(b, PyList) and not b.items and a.id.endswith("_list") else b
            else:
                raise NotImplementedError(ast.unparse(s))
            return [(st, "fall")]
        if isinstance(s, ast.AugAssign):
            if isinstance(s.target, ast.Name):
                st.env[s.target.id] = st.env[s.target.id] + self.ev(s.value, st)
                return [(st, "fall")]
            if isinstance(s.target, ast.Subscript):                          # count[labels[i]] += 1
                lst = self.ev(s.target.value, st)
                idx = self.ev(s.target.slice, st)
                self.oblige("count_index_in_range@%d" % s.lineno, st, [Or(*[idx == k for k in range(len(lst.items))])])
                inc = self.ev(s.value, st)
                st.env[s.target.value.id] = PyList([If(idx == k, v + inc, v) for k, v in enumerate(lst.items)])
                st.pc += self.c.unfold_cnt(st)                               # definitional unfolding of cnt at the current i (contract hint)
                return [(st, "fall")]
        if isinstance(s, ast.Expr) and isinstance(s.value, ast.Call):
            f = ast.unparse(s.value.func)
            if f == "scores.append":
                st.env["scores"] = ScoreList()
                return [(st, "fall")]
            if f == "labels.append":
                st.env["labels"] = LabelList()
                return [(st, "fall")]
            if f in ("x_list.append", "y_list.append", "operation_list.append"):
                st.env.setdefault("$pending", {})
                v = self.ev(s.value.args[0], st)
                key = f.split("_")[0]
                st.env["$pending"] = dict(st.env["$pending"], **{key: v})
                if len(st.env["$pending"]) == 3:                             # one logical row appended to the three lists
                    p = st.env["$pending"]
                    op = p["operation"]
                    rows = st.env["x_list"].append({"x": p["x"], "y": p["y"], "op": IntVal(op[1]), "tp": op[2].pinf, "tn": op[2].ninf,
                                                    "tv": op[2].val, "cut": st.env["i"]})
                    for nm in ("x_list", "y_list", "operation_list"):
                        st.env[nm] = rows
                    st.env["$pending"] = {}
                return [(st, "fall")]
        if isinstance(s, ast.If):
            c = self.ev(s.test, st)
            if isinstance(c, bool):
                return self.block(s.body if c else s.orelse, st)
            a, b = st.clone(), st.clone()
            a.pc.append(c)
            b.pc.append(Not(c))
            return self.block(s.body, a) + self.block(s.orelse, b)
        if isinstance(s, ast.Raise):
            return [(st, "raise")]
        if isinstance(s, ast.Return):
            return [(st, "return")]
        if isinstance(s, ast.For):                                           # for operation_string, counts in operations: (concrete list) -> unroll
            it = self.ev(s.iter, st)
            assert isinstance(it, PyList)
            outs = [(st, "fall")]
            for item in it.items:
                nxt = []
                for (s0, status) in outs:
                    for tgt, v in zip(s.target.elts, item):
                        s0.env[tgt.id] = v
                    nxt += self.block(s.body, s0)
                outs = nxt
            return outs
        if isinstance(s, ast.While):
            return self.loop(s, st)
        raise NotImplementedError(ast.unparse(s)[:200])

    def loop(self, s, st):
        outer = ast.unparse(s.test) == "i < n"
        inv = self.c.inv_outer if outer else self.c.inv_inner
        tag = "outer" if outer else "inner"
        if not outer:
            st.env["$i0"] = st.env["i"]
            st.env["$thr0"] = st.env["threshold"]
        self.oblige(tag + "_inv_init", st, inv(st))
        h = st.clone()
        h.env["i"] = fresh("i")
        h.env["count"] = PyList([fresh("c0"), fresh("c1")])
        if outer:
            old = h.env["x_list"]
            rows = Rows({f: fresh("R_" + f, ArraySort(IntSort(), sort_of(f))) for f in Rows.FIELDS}, fresh("R_len"))
            for nm in ("x_list", "y_list", "operation_list"):
                h.env[nm] = rows
            h.env["threshold"] = Ext(fresh("tp", BoolSort()), fresh("tn", BoolSort()), fresh("tv", RealSort()))
        h.pc += inv(h)
        c = self.ev(s.test, h)
        outs = []
        it = h.clone()
        it.pc.append(c)
        for (e, status) in self.block(s.body, it):
            assert status == "fall"
            self.oblige(tag + "_inv_preserved", e, inv(e))
        ex = h.clone()
        ex.pc.append(Not(c))
        outs.append((ex, "fall"))
        return outs


# ---------------------------------------------------------------- sidecar contract
j, j2, k, v_ = Int("j"), Int("j2"), Int("k"), Int("v")


class Contract:
    def __init__(self, x_metric, y_metric, module_exec):
        self.xm, self.ym = x_metric, y_metric

    @staticmethod
    def callee_post():
        return [N >= 1,
                ForAll([j, j2], Implies(And(0 <= j, j < j2, j2 < N), Sv(j) >= Sv(j2)), patterns=[MultiPattern(Sv(j), Sv(j2))]),
                ForAll([j], Implies(And(0 <= j, j < N), Or(Lb(j) == 0, Lb(j) == 1)), patterns=[Lb(j)]),
                CNT(0, 0) == 0, CNT(1, 0) == 0,
                CNT(0, N) + CNT(1, N) == N, CNT(0, N) >= 0, CNT(1, N) >= 0]      # lemma about cnt (ghost sum lemma in the framework)

    @staticmethod
    def unfold_cnt(st):
        i = st.env["i"]
        return [CNT(0, i + 1) == CNT(0, i) + If(Lb(i) == 0, 1, 0), CNT(1, i + 1) == CNT(1, i) + If(Lb(i) == 1, 1, 0)]

    def metric(self, name, fp, tp, tn, fn):
        fp, tp, tn, fn = real(fp), real(tp), real(tn), real(fn)
        n = tp + tn + fp + fn
        return {"selection_rate": (tp + fp) / n, "false_positive_rate": fp / (tn + fp), "false_negative_rate": fn / (tp + fn),
                "true_positive_rate": tp / (tp + fn), "true_negative_rate": tn / (tn + fp), "accuracy_score": (tp + tn) / n,
                "balanced_accuracy_score": 0.5 * tp / (tp + fn) + 0.5 * tn / (tn + fp)}[name]

    def row_ok(self, R, kk):
        c = R.get("cut", kk)
        t = Ext(R.get("tp", kk), R.get("tn", kk), R.get("tv", kk))
        fp, tp = CNT(0, c), CNT(1, c)
        tn, fn = CNT(0, N) - fp, CNT(1, N) - tp
        flipped = R.get("op", kk) == 1
        x_plain, y_plain = self.metric(self.xm, fp, tp, tn, fn), self.metric(self.ym, fp, tp, tn, fn)
        x_flip, y_flip = self.metric(self.xm, tn, fn, fp, tp), self.metric(self.ym, tn, fn, fp, tp)
        return And(0 <= c, c <= N, Or(R.get("op", kk) == 0, R.get("op", kk) == 1),
                   ForAll([j], Implies(And(0 <= j, j < c), gt_ext(Sv(j), t)), patterns=[Sv(j)]),
                   ForAll([j], Implies(And(c <= j, j < N), lt_ext(Sv(j), t)), patterns=[Sv(j)]),
                   R.get("x", kk) == If(flipped, x_flip, x_plain), R.get("y", kk) == If(flipped, y_flip, y_plain))

    def common(self, st):
        i, cnt, R = st.env["i"], st.env["count"], st.env["x_list"]
        return [0 <= i, i <= N, cnt.items[0] == CNT(0, i), cnt.items[1] == CNT(1, i), R.n >= 0,
                CNT(0, N) > 0, CNT(1, N) > 0,
                ForAll([k], Implies(And(0 <= k, k < R.n), self.row_ok(R, k)),
                       patterns=[Select(R.arrs[f], k) for f in ("cut", "x", "y", "op", "tv")]),
                Implies(R.n > 0, R.get("cut", 0) == 0)]

    def inv_outer(self, st):
        i, R = st.env["i"], st.env["x_list"]
        return self.common(st) + [Implies(R.n == 0, i == 0),
                                  Implies(i > 0, And(R.n > 0, R.get("cut", R.n - 1) == i))]

    def inv_inner(self, st):
        i, i0, thr = st.env["i"], st.env["$i0"], st.env["$thr0"]
        return self.common(st) + [i0 <= i, i0 < N, st.env["x_list"].n > 0, Not(thr.pinf), Not(thr.ninf), thr.val == Sv(i0),
                                  st.env["threshold"].eq(thr),
                                  ForAll([j], Implies(And(i0 <= j, j < i), Sv(j) == thr.val), patterns=[Sv(j)])]

    def post(self, st):
        R = st.env["x_list"]
        return [R.n >= 1, R.get("cut", 0) == 0, R.get("cut", R.n - 1) == N,
                ForAll([k], Implies(And(0 <= k, k < R.n), self.row_ok(R, k)))]


def run(x_metric, y_metric, flip, mutate=False, verbose=False):
    module = ast.parse(open(SRC).read())
    fn = [n for n in module.body if isinstance(n, ast.FunctionDef) and n.name == "_calculate_tradeoff_points"][0]
    if mutate:          # canary: count the wrong class  (count[labels[i]] -> count[1 - labels[i]])
        for n in ast.walk(fn):
            if isinstance(n, ast.AugAssign) and isinstance(n.target, ast.Subscript):
                n.target.slice = ast.BinOp(left=ast.Constant(1), op=ast.Sub(), right=n.target.slice, lineno=n.lineno, col_offset=0)
    c = Contract(x_metric, y_metric, None)
    ex = Exec(module, c, x_metric, y_metric, flip)
    st = St()
    st.env["$rows0"] = Rows({f: Const("R0_" + f, ArraySort(IntSort(), sort_of(f))) for f in Rows.FIELDS}, IntVal(0))
    st.env["METRIC_DICT"] = {}
    st.env["data"] = "data"
    st.env["sensitive_feature_value"] = "sfv"
    outs = ex.block(fn.body, st)
    kinds = sorted(s for _, s in outs)
    for (e, status) in outs:
        if status == "raise":
            ex.oblige("raise_only_if_degenerate", e, [Or(CNT(1, N) == 0, CNT(0, N) == 0)])
        else:
            ex.oblige("post", e, c.post(e))
    ok, t0, bad = 0, time.time(), []
    for (name, hyps, goal) in ex.obligations:
        s = Solver()
        s.set("timeout", 20000)
        s.set("auto_config", False)
        s.set("smt.mbqi", False)
        s.set("smt.relevancy", 0)        # all terms take part in E-matching (needed for facts under disjunctions, see nested-quantifier note)
        s.add(*hyps)
        s.add(Not(goal))
        r = s.check()
        ok += (r == unsat)
        if r != unsat:
            bad.append(name)
    return len(ex.obligations), ok, time.time() - t0, kinds, bad


if __name__ == "__main__":
    mutate = "--mutate" in sys.argv
    X = ["selection_rate", "true_positive_rate", "false_positive_rate", "true_negative_rate", "false_negative_rate"]
    Y = ["accuracy_score", "balanced_accuracy_score", "selection_rate", "true_positive_rate", "true_negative_rate"]
    combos = [(X[0], Y[0], False), (X[2], Y[3], True)] if "--all" not in sys.argv else [(a, b, f) for a in X for b in Y for f in (False, True)]
    tot = totok = 0
    for (xm, ym, flip) in combos:
        n_ob, ok, dt, kinds, bad = run(xm, ym, flip, mutate)
        tot += n_ob
        totok += ok
        print(f"{xm:22s} {ym:24s} flip={flip!s:5s} obligations={n_ob:3d} discharged={ok:3d} {dt:5.1f}s exits={kinds} {('UNDISCHARGED: ' + ', '.join(sorted(set(bad)))) if bad else ''}")
    print("total obligations:", tot, "discharged:", totok)
