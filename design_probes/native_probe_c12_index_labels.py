import warnings; warnings.filterwarnings("ignore")
import numpy as np, pandas as pd
from fairlearn.reductions import ExponentiatedGradient, GridSearch, DemographicParity, EqualizedOdds, ErrorRate
from fairlearn.postprocessing import ThresholdOptimizer
from fairlearn.metrics import demographic_parity_difference, equalized_odds_difference
from sklearn.linear_model import LogisticRegression
rng = np.random.default_rng(0)
n=60
Xn = rng.normal(size=(n,2)); y = (Xn[:,0]+0.5*rng.normal(size=n)>0).astype(int); sf = rng.choice(['a','b'],n); cf = rng.choice(['u','v'],n)
perm = rng.permutation(n)
idx = pd.Index(perm+100)
Xd = pd.DataFrame(Xn, columns=['f1','f2'], index=idx)
ys = pd.Series(y, index=pd.Index(rng.permutation(n)))   # different labels than X
sfs = pd.Series(sf, index=pd.Index([5]*n))
cfs = pd.DataFrame({'c':cf}, index=pd.Index(range(n,0,-1)))
def cmp(name, a, b): print(name, "OK" if np.allclose(np.asarray(a,dtype=float), np.asarray(b,dtype=float), equal_nan=True) else "DIFF")
# moments
for M in (DemographicParity, EqualizedOdds):
    m1=M(); m1.load_data(Xn, y, sensitive_features=sf, control_features=cf)
    m2=M(); m2.load_data(Xd, ys, sensitive_features=sfs, control_features=cfs)
    h = rng.random(n)
    cmp(M.__name__+" gamma", m1.gamma(lambda X: h), m2.gamma(lambda X: h))
    lam = pd.Series(rng.random(len(m1.index)), index=m1.index)
    cmp(M.__name__+" sw", m1.signed_weights(lam), m2.signed_weights(lam))
# EG
e1 = ExponentiatedGradient(LogisticRegression(), DemographicParity(), max_iter=10).fit(Xn,y,sensitive_features=sf)
e2 = ExponentiatedGradient(LogisticRegression(), DemographicParity(), max_iter=10).fit(Xd,ys,sensitive_features=sfs)
cmp("EG pmf", e1._pmf_predict(Xn), e2._pmf_predict(Xd))
g1 = GridSearch(LogisticRegression(), DemographicParity(), grid_size=7); g1.fit(Xn,y,sensitive_features=sf)
g2 = GridSearch(LogisticRegression(), DemographicParity(), grid_size=7); g2.fit(Xd,ys,sensitive_features=sfs)
cmp("GS pred", g1.predict(Xn), g2.predict(Xd)); print(g1.best_idx_, g2.best_idx_)
for c in ('demographic_parity','equalized_odds'):
    t1 = ThresholdOptimizer(estimator=LogisticRegression(), constraints=c, predict_method='predict_proba').fit(Xn,y,sensitive_features=sf)
    t2 = ThresholdOptimizer(estimator=LogisticRegression(), constraints=c, predict_method='predict_proba').fit(Xd,ys,sensitive_features=sfs)
    cmp("TO pmf "+c, t1._pmf_predict(Xn,sensitive_features=sf), t2._pmf_predict(Xd,sensitive_features=sfs))
    t3 = ThresholdOptimizer(estimator=LogisticRegression(), constraints=c, predict_method='predict_proba').fit(Xd,pd.DataFrame({'y':y},index=idx[::-1]),sensitive_features=pd.DataFrame({'s':sf}, index=idx))
    cmp("TO pmf df "+c, t1._pmf_predict(Xn,sensitive_features=sf), t3._pmf_predict(Xd,sensitive_features=list(sf)))
cmp("dpd", demographic_parity_difference(y, (Xn[:,1]>0)*1, sensitive_features=sf), demographic_parity_difference(ys, pd.Series((Xn[:,1]>0)*1, index=idx), sensitive_features=sfs))
# multi-column sf through TO, adversarial chars
sf2 = np.array([["a,","b"],["a",",b"]]*30, dtype=object)
t = ThresholdOptimizer(estimator=LogisticRegression(), constraints='demographic_parity', predict_method='predict_proba').fit(Xn,y,sensitive_features=sf2)
print(list(t.interpolated_thresholder_.interpolation_dict.keys()))
