import warnings; warnings.filterwarnings("ignore")
import numpy as np, torch, copy
from fairlearn.adversarial import AdversarialFairnessClassifier
rng=np.random.default_rng(0)
X=rng.normal(size=(8,3)); y=(X[:,0]>0).astype(int); a=rng.integers(0,2,8)
lr=1.0; alpha=0.7
m=AdversarialFairnessClassifier(backend="torch",predictor_model=[4],adversary_model=[3],
   predictor_optimizer=lambda mod: torch.optim.SGD(mod.parameters(),lr=lr), adversary_optimizer=lambda mod: torch.optim.SGD(mod.parameters(),lr=lr),
   epochs=1,batch_size=-1,shuffle=False,random_state=0,alpha=alpha)
# do setup without training: call _validate_input via partial_fit? use fit with max_iter then compare? Instead: replicate: first setup by calling partial_fit on a copy
m2=copy.deepcopy(m)
m2.partial_fit(X,y,classes=[0,1],sensitive_features=a)   # one step, includes setup with random_state=0
# fresh identical init:
m3=copy.deepcopy(m); Xv,yv,av=m3._validate_input(X,y,a,True)
eng=m3.backendEngine_
P0=[p.detach().clone() for p in eng.predictor_model.parameters()]; A0=[p.detach().clone() for p in eng.adversary_model.parameters()]
# expected grads by autograd
pm=eng.predictor_model; am=eng.adversary_model
pm.train(); am.train()
Yh=pm(Xv); LP=eng.predictor_loss(Yh,yv); dLP=torch.autograd.grad(LP,list(pm.parameters()),retain_graph=True)
LA=eng.adversary_loss(am(Yh),av); dLA=torch.autograd.grad(LA,list(pm.parameters()),retain_graph=True); dU=torch.autograd.grad(LA,list(am.parameters()))
exp=[]
for gp,ga in zip(dLP,dLA):
    nrm2=(ga*ga).sum()
    proj=(ga*gp).sum()/nrm2*ga if nrm2>0 else 0*ga
    exp.append(gp-proj-alpha*ga)
P1=[p.detach().clone() for p in m2.backendEngine_.predictor_model.parameters()]
A1=[p.detach().clone() for p in m2.backendEngine_.adversary_model.parameters()]
for i,(p0,p1,g) in enumerate(zip(P0,P1,exp)):
    got=(p0-p1)/lr
    print("param",i,tuple(p0.shape),"max|got-exp|",float((got-g).abs().max()), "orth(got+alpha*dLA, dLA)=", float(((got+alpha*dLA[i])*dLA[i]).sum()))
for i,(a0,a1,g) in enumerate(zip(A0,A1,dU)):
    print("adv",i,float(((a0-a1)/lr-g).abs().max()))
