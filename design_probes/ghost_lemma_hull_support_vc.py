"""FEASIBILITY PROBE: the induction of lemma `hull.support` as a ghost loop (Dafny style), hand-written VCs.

ghost def support_left(S, m, p, j0, t):      # requires chain facts, 0 <= t < j0 < m-1, X(S[j0]) <= X(p), Below(S[j0], S[j0+1], p)
    cur = j0
    while cur > t:                            # invariant: t <= cur <= j0, Below(S[cur], S[cur+1], p), X(p) >= X(S[cur])
        cur -= 1                              # step uses lemma L_left at (S[cur-1], S[cur], S[cur+1])
    # ensures Below(S[t], S[t+1], p)
(and the mirrored walk to the right, and the mixture accumulation loop of `jensen.mix`)
"""
from z3 import *
import time
X = Function("X", IntSort(), RealSort()); Y = Function("Y", IntSort(), RealSort())
B = Function("Below", IntSort(), IntSort(), IntSort(), BoolSort())
S = Function("S", IntSort(), IntSort())
m, p, j0, t, cur = Ints("m p j0 t cur")
j, j2, j3, a, b, c, q = Ints("j j2 j3 a b c q")
def Bdef(a, b, p): return (X(b) - X(a)) * (Y(p) - Y(a)) <= (Y(b) - Y(a)) * (X(p) - X(a))
LEMMAS = {
 "L_left":  (Implies(And(X(a) <= X(b), X(b) < X(c), Not(B(a, c, b)), X(q) >= X(b), B(b, c, q)), B(a, b, q)), [MultiPattern(B(b, c, q), B(a, c, b))]),
 "L_right": (Implies(And(X(a) < X(b), X(b) <= X(c), Not(B(a, c, b)), X(q) <= X(b), B(a, b, q)), B(b, c, q)), [MultiPattern(B(a, b, q), B(a, c, b))]),
}
def reveal(e):
    if is_app(e) and e.decl().name() == "Below": return Bdef(*[reveal(x) for x in e.children()])
    if is_quantifier(e) or e.num_args() == 0: return e
    return e.decl()(*[reveal(x) for x in e.children()])
for name, (phi, _) in LEMMAS.items():
    s = Solver(); s.set("timeout", 20000); s.add(Not(reveal(phi))); print(name, "(revealed, QF_NRA):", s.check())
axioms = [ForAll([a, b, c, q], phi, patterns=pat) for phi, pat in LEMMAS.values()]
chain = [m >= 2,
    ForAll([j, j2, j3], Implies(And(0 <= j, j2 == j + 1, j3 == j + 2, j3 < m), Not(B(S(j), S(j3), S(j2)))), patterns=[MultiPattern(S(j), S(j2), S(j3))]),
    ForAll([j, j2], Implies(And(1 <= j, j2 == j + 1, j2 < m), X(S(j)) < X(S(j2))), patterns=[MultiPattern(S(j), S(j2))]),
    X(S(0)) <= X(S(1))]
def prove(name, hyps, goal):
    s = Solver(); s.set("timeout", 20000); s.set("auto_config", False); s.set("smt.mbqi", False); s.set("smt.relevancy", 0)
    s.add(*axioms, *chain, *hyps, Not(goal)); t0 = time.time(); r = s.check(); print(f"{name:38s} {r}  {time.time()-t0:.2f}s")
# ---- left walk
inv = lambda cu: And(t <= cu, cu <= j0, B(S(cu), S(cu + 1), p), X(p) >= X(S(cu)))
pre = [0 <= t, t < j0, j0 + 1 < m, X(S(j0)) <= X(p), B(S(j0), S(j0 + 1), p)]
prove("left: invariant on entry", pre, inv(j0))
prove("left: invariant preserved", pre + [inv(cur), cur > t, S(cur - 1) == S(cur - 1), S(cur + 1) == S(cur + 1)], inv(cur - 1))
prove("left: postcondition", pre + [inv(cur), Not(cur > t)], B(S(t), S(t + 1), p))
# ---- right walk (start edge must not be the vertical first edge: j0 >= 1)
invr = lambda cu: And(j0 <= cu, cu <= t, B(S(cu), S(cu + 1), p), X(p) <= X(S(cu + 1)))
prer = [1 <= j0, j0 < t, t + 1 < m, X(p) <= X(S(j0 + 1)), B(S(j0), S(j0 + 1), p)]
prove("right: invariant on entry", prer, invr(j0))
prove("right: invariant preserved", prer + [invr(cur), cur < t, S(cur + 2) == S(cur + 2)], invr(cur + 1))
prove("right: postcondition", prer + [invr(cur), Not(cur < t)], B(S(t), S(t + 1), p))
# ---- mixture accumulation (jensen.mix): component k has weight w>=0 and lies under the supporting line y <= ya + sl*(x - xa)
W, Sx, Sy, w, x, y, ya, xa, sl = Reals("W Sx Sy w x y ya xa sl")
I = lambda W, Sx, Sy: Sy <= ya * W + sl * (Sx - xa * W)
s = Solver(); s.set("timeout", 20000); s.add(w >= 0, y <= ya + sl * (x - xa), I(W, Sx, Sy), Not(I(W + w, Sx + w * x, Sy + w * y)))
print("mixture: invariant preserved           ", s.check())
s = Solver(); s.set("timeout", 20000); s.add(I(W, Sx, Sy), W == 1, Not(Sy <= ya + sl * (Sx - xa)))
print("mixture: postcondition (total weight 1)", s.check())
