"""FEASIBILITY PROBE (throw-away, not the framework).

Question probed: can verification conditions for a REAL fairlearn function that contains a
for-loop, a nested while-loop with `break`, list append/pop and record attribute access be
generated mechanically from its AST (re-read from /repo on every run), cut with sidecar loop
invariants that contain quantifiers, and be discharged by z3 in seconds -- and does a one-token
mutant of the source fail a named obligation with a counterexample?

Target: fairlearn/postprocessing/_tradeoff_curve_utilities.py::_filter_points_to_get_convex_hull

Abstract view used for the data:
  points_sorted : a frame with N rows; row k has reals X(k), Y(k) (columns x, y); the
                  `operation` column is carried along as the row id itself.
  a record produced by itertuples() is represented by its row id (an Int); r.x -> X(r), r.y -> Y(r)
  selected      : (S : Int -> Int, m : Int)   S(j) = row id of the j-th selected record

run:  python3-vt pyvc_probe_hull.py [--mutate]
"""
import ast
import sys
import time
import copy
from z3 import (And, BoolVal, Const, ForAll, Function, If, Implies, Int, IntSort, IntVal, Not, Or,
                RealSort, Solver, Store, Select, Array, ArraySort, MultiPattern, sat, unsat, K)

SRC = "/repo/fairlearn/postprocessing/_tradeoff_curve_utilities.py"
FUNC = "_filter_points_to_get_convex_hull"

X = Function("X", IntSort(), RealSort())
Y = Function("Y", IntSort(), RealSort())
N = Int("N")


class Rec:  # a row record, identified by row id
    def __init__(self, k):
        self.k = k


class SymList:  # list of records: base array of row ids + python-level overlay of appended cells + length
    def __init__(self, arr, n, over=()):
        self.arr, self.n, self.over = arr, n, tuple(over)

    def get(self, i):  # select-over-store expanded eagerly so that E-matching sees Select(base, i)
        t = Select(self.arr, i)
        for (idx, val) in self.over:
            t = If(i == idx, val, t)
        return t


class Frame:
    pass


FRESH = [0]
TERMS = {}


def EXTRA_TERMS(name):
    return TERMS.get(name, [])



def fresh(name, sort=None):
    FRESH[0] += 1
    return Const(f"{name}!{FRESH[0]}", IntSort() if sort is None else sort)


class Path(Exception):
    pass


class State:
    def __init__(self):
        self.env = {}
        self.pc = []

    def clone(self):
        s = State()
        s.env = dict(self.env)
        s.pc = list(self.pc)
        return s


class VC:
    def __init__(self, fn, inv_outer, inv_inner, post, pre):
        self.fn, self.inv_outer, self.inv_inner, self.post, self.pre = fn, inv_outer, inv_inner, post, pre
        self.obligations = []  # (name, hyps, goal)
        self.lemma_obligations = []  # closed QF formulas proved with definitions revealed

    # ---------------- expressions
    def ev(self, e, st):
        if isinstance(e, ast.Constant):
            return IntVal(e.value) if isinstance(e.value, int) else e.value
        if isinstance(e, ast.Name):
            return st.env[e.id]
        if isinstance(e, ast.Attribute):
            v = self.ev(e.value, st)
            if isinstance(v, Rec):
                return {"x": X, "y": Y}[e.attr](v.k)
            raise NotImplementedError(ast.dump(e))
        if isinstance(e, ast.BinOp):
            a, b = self.ev(e.left, st), self.ev(e.right, st)
            return {ast.Add: lambda: a + b, ast.Sub: lambda: a - b, ast.Mult: lambda: a * b}[type(e.op)]()
        if isinstance(e, ast.UnaryOp) and isinstance(e.op, ast.USub):
            return -self.ev(e.operand, st)
        if isinstance(e, ast.Compare) and len(e.ops) == 1:
            a, b = self.ev(e.left, st), self.ev(e.comparators[0], st)
            return {ast.LtE: lambda: a <= b, ast.Lt: lambda: a < b, ast.GtE: lambda: a >= b,
                    ast.Gt: lambda: a > b, ast.Eq: lambda: a == b}[type(e.ops[0])]()
        if isinstance(e, ast.Call) and isinstance(e.func, ast.Name) and e.func.id == "len":
            v = self.ev(e.args[0], st)
            return v.n
        if isinstance(e, ast.Subscript):
            v = self.ev(e.value, st)
            idx = self.ev(e.slice, st)
            if isinstance(v, SymList):
                i = If(idx < 0, v.n + idx, idx)
                self.oblige("index_in_bounds@%d" % e.lineno, st, And(0 <= i, i < v.n))
                return Rec(v.get(i))
        if isinstance(e, ast.List) and not e.elts:
            return SymList(K(IntSort(), IntVal(0)), IntVal(0))
        raise NotImplementedError(ast.dump(e))

    def oblige(self, name, st, goal):
        self._terms(name, st)
        self.obligations.append((name, list(st.pc), goal))

    def _terms(self, name, st):
        ts = [IntVal(0)]
        for v in st.env.values():
            if isinstance(v, SymList):
                ts += [v.n, v.n - 1, v.n - 2] + [idx for idx, _ in v.over]
            elif isinstance(v, Rec):
                ts.append(v.k)
            elif hasattr(v, "sort") and v.sort() == IntSort():
                ts += [v, v - 1]
        TERMS[name] = ts

    def oblige_all(self, name, st, goals):
        for n_, g in enumerate(goals):
            self._terms(f"{name}#{n_}", st)
            self.obligations.append((f"{name}#{n_}", list(st.pc), g))

    # ---------------- statements; returns list of (state, status) with status in {"fall","break","return"}
    def block(self, stmts, st):
        outs = [(st, "fall")]
        for s in stmts:
            nxt = []
            for (s0, status) in outs:
                if status != "fall":
                    nxt.append((s0, status))
                else:
                    nxt.extend(self.stmt(s, s0))
            outs = nxt
        return outs

    def stmt(self, s, st):
        if isinstance(s, ast.Expr) and isinstance(s.value, ast.Constant):
            return [(st, "fall")]  # docstring / comment strings: dropped
        if isinstance(s, ast.Assign) and len(s.targets) == 1 and isinstance(s.targets[0], ast.Name):
            st.env[s.targets[0].id] = self.ev(s.value, st)
            return [(st, "fall")]
        if isinstance(s, ast.Expr) and isinstance(s.value, ast.Call) and isinstance(s.value.func, ast.Attribute):
            recv, meth = s.value.func.value, s.value.func.attr
            lst = self.ev(recv, st)
            if isinstance(lst, SymList) and meth == "append":
                r = self.ev(s.value.args[0], st)
                st.env[recv.id] = SymList(lst.arr, lst.n + 1, lst.over + ((lst.n, r.k),))
                return [(st, "fall")]
            if isinstance(lst, SymList) and meth == "pop" and not s.value.args:
                self.oblige("pop_nonempty@%d" % s.lineno, st, lst.n >= 1)
                st.env[recv.id] = SymList(lst.arr, lst.n - 1, lst.over)
                return [(st, "fall")]
        if isinstance(s, ast.If):
            c = self.ev(s.test, st)
            a, b = st.clone(), st.clone()
            a.pc.append(c)
            b.pc.append(Not(c))
            folded = FOLD(s, c, st.env)           # contract hint: the raw test is an instance of an opaque spec predicate
            if folded is not None:
                self.lemma_obligations.append(("fold_sound@%d" % s.lineno, c == folded[1]))   # proved with the definition revealed
                a.pc.append(folded[0])
                b.pc.append(Not(folded[0]))
            return self.block(s.body, a) + self.block(s.orelse, b)
        if isinstance(s, ast.Break):
            return [(st, "break")]
        if isinstance(s, ast.Return):
            st.env["$result"] = s.value
            return [(st, "return")]
        if isinstance(s, ast.While):
            return self.loop_while(s, st)
        if isinstance(s, ast.For):
            return self.loop_for(s, st)
        raise NotImplementedError(ast.dump(s))

    def modified(self, body):
        mods = set()
        for n in ast.walk(ast.Module(body=body, type_ignores=[])):
            if isinstance(n, ast.Assign):
                for t in n.targets:
                    if isinstance(t, ast.Name):
                        mods.add(t.id)
            if isinstance(n, ast.Call) and isinstance(n.func, ast.Attribute) and n.func.attr in ("append", "pop") \
                    and isinstance(n.func.value, ast.Name):
                mods.add(n.func.value.id)
        return mods

    def havoc(self, st, names):
        for v in names:
            old = st.env.get(v)
            if isinstance(old, SymList):
                st.env[v] = SymList(fresh(v + "_arr", ArraySort(IntSort(), IntSort())), fresh(v + "_len"))
            elif isinstance(old, Rec):
                st.env[v] = Rec(fresh(v))
            elif old is not None:
                st.env[v] = fresh(v, old.sort())

    def loop_for(self, s, st):
        # for r2 in points_sorted.itertuples():  ==>  k = 0..N-1 ; r2 = Rec(k)
        assert isinstance(s.iter, ast.Call) and s.iter.func.attr == "itertuples"
        tgt = s.target.id
        st.env["$k"] = IntVal(0)
        self.oblige_all("outer_inv_init", st, self.inv_outer(st.env))
        mods = self.modified(s.body) | {"$k", tgt}
        st.env.setdefault(tgt, Rec(IntVal(0)))
        for v in self.modified(s.body):
            st.env.setdefault(v, Rec(IntVal(0)))  # loop-local records (r0, r1) first defined inside
        h = st.clone()
        self.havoc(h, mods)
        h.pc.extend(self.inv_outer(h.env))
        # iteration
        it = h.clone()
        it.pc.append(And(0 <= it.env["$k"], it.env["$k"] < N))
        it.env[tgt] = Rec(it.env["$k"])
        for (e, status) in self.block(s.body, it):
            assert status == "fall"
            e.env["$k"] = e.env["$k"] + 1
            self.oblige_all("outer_inv_preserved", e, self.inv_outer(e.env))
        ex = h.clone()
        ex.pc.append(ex.env["$k"] >= N)
        return [(ex, "fall")]

    def loop_while(self, s, st):
        self.oblige_all("inner_inv_init", st, self.inv_inner(st.env))
        mods = self.modified(s.body)
        h = st.clone()
        self.havoc(h, mods)
        h.pc.extend(self.inv_inner(h.env))
        c = self.ev(s.test, h)
        outs = []
        it = h.clone()
        it.pc.append(c)
        for (e, status) in self.block(s.body, it):
            if status == "break":
                outs.append((e, "fall"))
            else:
                self.oblige_all("inner_inv_preserved", e, self.inv_inner(e.env))
        ex = h.clone()
        ex.pc.append(Not(c))
        outs.append((ex, "fall"))
        return outs

    def run(self):
        st = State()
        st.env["points_sorted"] = Frame()
        st.pc.append(self.pre())
        for (e, status) in self.block(self.fn.body, st):
            assert status == "return"
            # return pd.DataFrame(selected)[["x","y","operation"]] : library contract = rows of `selected`, in order
            self.oblige_all("postcondition", e, self.post(e.env))
        return self.obligations


# ------------------------------------------------------------------ sidecar contract (the part a human writes)

i, j, j2, j3 = Int("i"), Int("j"), Int("j2"), Int("j3")
a_, b_, c_, p_ = Int("a"), Int("b"), Int("c"), Int("p")
from z3 import BoolSort
B = Function("Below", IntSort(), IntSort(), IntSort(), BoolSort())   # OPAQUE in the loop VCs


def Bdef(a, b, p):  # revealed definition: p on or below the line through a,b (cross-product form, vertical-safe)
    return (X(b) - X(a)) * (Y(p) - Y(a)) <= (Y(b) - Y(a)) * (X(p) - X(a))


def span(a, b, p):
    return And(X(a) <= X(p), X(p) <= X(b))


# geometric lemmas: each is proved ONCE as a quantifier-free nonlinear-real query with Below revealed,
# and then used as a triggered axiom while Below stays opaque in the loop VCs
LEMMAS = {
    # dropping b (on/below a->c) from a chain a,b,c keeps every point that was under the two old edges under the new edge
    "L1_merge": (lambda a, b, c, p: Implies(And(X(a) <= X(b), X(b) <= X(c), B(a, c, b), span(a, c, p),
                                                Implies(span(a, b, p), B(a, b, p)), Implies(span(b, c, p), B(b, c, p))), B(a, c, p)),
                 lambda a, b, c, p: [MultiPattern(B(a, c, b), X(p))]),
    "L3_same_x_under_a": (lambda a, b, c, p: Implies(And(X(p) == X(a), Y(p) <= Y(a), X(a) <= X(b)), B(a, b, p)),
                          lambda a, b, c, p: [B(a, b, p)]),
    "L4_same_x_top_dropped": (lambda a, b, c, p: Implies(And(X(p) == X(b), Y(p) <= Y(b), X(a) <= X(p)), B(a, b, p)),
                              lambda a, b, c, p: [B(a, b, p)]),
    "L5_endpoint": (lambda a, b, c, p: B(a, b, b), lambda a, b, c, p: [B(a, b, b)]),
}


USED = {"L1_merge": "abcp", "L3_same_x_under_a": "abp", "L4_same_x_top_dropped": "abp", "L5_endpoint": "ab"}


def lemma_axioms():
    out = []
    for name, (f, pat) in LEMMAS.items():
        body = f(a_, b_, c_, p_)
        vs = [v for v in (a_, b_, c_, p_) if str(v) in USED[name]]
        out.append(ForAll(vs, body, patterns=pat(a_, b_, c_, p_)))
    return out


def FOLD(node, cond, env):
    # the single `if` inside the while loop: its test IS Below(r0, r2, r1)
    if all(v in env for v in ("r0", "r1", "r2")) and isinstance(env["r0"], Rec):
        r0, r1, r2 = env["r0"].k, env["r1"].k, env["r2"].k
        return (B(r0, r2, r1), Bdef(r0, r2, r1))
    return None


def lexle(a, b):
    return Or(X(a) < X(b), And(X(a) == X(b), Y(a) <= Y(b)))


def pre():
    return And(N >= 1, ForAll([i, j], Implies(And(0 <= i, i < j, j < N), lexle(i, j)), patterns=[MultiPattern(X(i), X(j))]),
               *lemma_axioms())


def chain_facts(L, k):
    """facts about the list `selected` shared by both invariants; k = number of rows already consumed.
    Every quantified fact binds ALL indices that occur in Select terms (j2 = j+1, j3 = j+2 are separate bound variables
    tied by an equation), so that an instance never creates a new trigger term: no matching loops even with relevancy=0."""
    sel, m = L.get, L.n
    A = L.arr
    return [
        m >= 0, m <= k,
        ForAll([j], Implies(And(0 <= j, j < m), And(0 <= sel(j), sel(j) < k)), patterns=[Select(A, j)]),              # ids of consumed rows
        ForAll([j, j2], Implies(And(0 <= j, j < j2, j2 < m), sel(j) < sel(j2)),
               patterns=[MultiPattern(Select(A, j), Select(A, j2))]),                                                  # a subsequence, order kept
        Implies(m >= 1, sel(0) == 0),                                                                                   # first row kept
        # strict concavity of consecutive triples
        ForAll([j, j2, j3], Implies(And(0 <= j, j2 == j + 1, j3 == j + 2, j3 < m), Not(B(sel(j), sel(j3), sel(j2)))),
               patterns=[MultiPattern(Select(A, j), Select(A, j2), Select(A, j3))]),
        # abscissae strictly increase from index 1 on (only the first edge may be vertical)
        ForAll([j, j2], Implies(And(1 <= j, j2 == j + 1, j2 < m), X(sel(j)) < X(sel(j2))),
               patterns=[MultiPattern(Select(A, j), Select(A, j2))]),
        # coverage: every consumed row lies on/below every chain edge whose x-span contains it
        ForAll([i, j, j2], Implies(And(0 <= i, i < k, 0 <= j, j2 == j + 1, j2 < m, span(sel(j), sel(j2), i)),
                                   B(sel(j), sel(j2), i)), patterns=[MultiPattern(X(i), Select(A, j), Select(A, j2))]),
    ]


def inv_outer(env):
    L, k = env["selected"], env["$k"]
    m = L.n
    return [0 <= k, k <= N] + chain_facts(L, k) + [Implies(k >= 1, And(m >= 1, L.get(m - 1) == k - 1))]          # last consumed row on top


def inv_inner(env):
    L, k = env["selected"], env["$k"]
    m = L.n
    r2 = env["r2"].k
    top = L.get(m - 1)
    return [0 <= k, k < N, r2 == k] + chain_facts(L, k) + [
        Implies(k >= 1, m >= 1),
        Implies(m >= 1, And(top < k, X(top) <= X(k))),
        # virtual edge (top, r2) covers the consumed rows in its span
        ForAll([i], Implies(And(0 <= i, i < k, m >= 1, span(top, k, i)), B(top, k, i)), patterns=[X(i)])]


def post(env):
    L = env["selected"]
    sel, m = L.get, L.n
    return [m >= 1, sel(0) == 0, sel(m - 1) == N - 1,
            ForAll([j, j2], Implies(And(0 <= j, j < j2, j2 < m), sel(j) < sel(j2))),
            ForAll([j], Implies(And(0 <= j, j + 2 < m), Not(B(sel(j), sel(j + 2), sel(j + 1))))),
            ForAll([j], Implies(And(1 <= j, j + 1 < m), X(sel(j)) < X(sel(j + 1)))),
            ForAll([i, j], Implies(And(0 <= i, i < N, 0 <= j, j + 1 < m, span(sel(j), sel(j + 1), i)),
                                   B(sel(j), sel(j + 1), i)))]


def main():
    src = open(SRC).read()
    tree = ast.parse(src)
    fn = [n for n in ast.walk(tree) if isinstance(n, ast.FunctionDef) and n.name == FUNC][0]
    if "--mutate" in sys.argv:  # canary: a one-token change of the real source that breaks the hull property
        for n in ast.walk(fn):
            if isinstance(n, ast.Compare) and isinstance(n.ops[0], ast.LtE):
                n.ops[0] = ast.GtE()   # drop r1 when it is ABOVE the line
        print("mutated test:", [l for l in ast.unparse(fn).splitlines() if "r1.y" in l][0].strip())
    vc = VC(fn, inv_outer, inv_inner, post, pre)
    obs = vc.run()
    t0 = time.time()
    nok = 0
    # (1) lemmas and fold hints, definition revealed, quantifier free
    qf = []
    for name, (f, _) in LEMMAS.items():
        A, Bq, C, P = Int("A"), Int("Bq"), Int("C"), Int("P")
        qf.append((name, f(A, Bq, C, P)))
    from z3 import substitute
    for name, phi in qf + vc.lemma_obligations:
        s = Solver(); s.set("timeout", 30000)
        # reveal: replace every Below(x,y,z) by its definition
        def reveal(e):
            if e.decl().eq(B) if hasattr(e, "decl") and e.num_args() == 3 and e.decl().name() == "Below" else False:
                return Bdef(*[reveal(x) for x in e.children()])
            if e.num_args() == 0:
                return e
            return e.decl()(*[reveal(x) for x in e.children()])
        s.add(Not(reveal(phi)))
        t = time.time(); r = s.check()
        print(f"{name:32s} {'discharged' if r == unsat else str(r).upper():10s} {time.time()-t:6.2f}s  [QF_NRA, Below revealed]")
        nok += (r == unsat)
    # (2) loop / post obligations, Below opaque, E-matching only
    for (name, hyps, goal) in obs:
        s = Solver()
        s.set("timeout", 30000)
        s.set("auto_config", False)
        s.set("smt.mbqi", False)
        s.set("smt.relevancy", 0)
        s.add(*hyps)
        s.add(Not(goal))
        t = time.time()
        r = s.check()
        if r != unsat or "-v" in sys.argv:
            print(f"{name:32s} {'discharged' if r == unsat else str(r).upper():10s} {time.time()-t:6.2f}s")
        nok += (r == unsat)
    tot = len(obs) + len(qf) + len(vc.lemma_obligations)
    print("obligations:", tot, "discharged:", nok, "total %.1fs" % (time.time() - t0))


if __name__ == "__main__":
    main()
