# FEASIBILITY PROBE: path-forking symbolic reals through REAL pandas code (DisaggregatedResult.difference / ratio / apply_grouping)
import warnings; warnings.filterwarnings("ignore")
import z3, numpy as np, pandas as pd, itertools, time
from fractions import Fraction
class Abort(Exception): pass
class Ctx:
    def __init__(self): self.decisions=[]; self.pos=0; self.pc=[]; self.solver=z3.Solver()
    def branch(self, cond):
        # returns python bool, forking by replay
        if self.pos < len(self.decisions):
            d = self.decisions[self.pos]
        else:
            s=self.solver; s.push(); s.add(*self.pc, cond); t = s.check()==z3.sat; s.pop()
            s.push(); s.add(*self.pc, z3.Not(cond)); f = s.check()==z3.sat; s.pop()
            if t and f: d=True; self.decisions.append(True); self.open.append(len(self.decisions)-1)
            elif t: d=True; self.decisions.append(True)
            else: d=False; self.decisions.append(False)
        self.pos+=1
        self.pc.append(cond if d else z3.Not(cond))
        return d
CTX=None
def lift(o):
    if isinstance(o, SR): return o.t
    if isinstance(o,(bool,np.bool_,int,np.integer)): return z3.RealVal(int(o))
    if isinstance(o,(float,np.floating)):
        if o!=o: raise Abort("nan meets symbolic")
        f=Fraction(float(o)); return z3.RealVal(f.numerator)/z3.RealVal(f.denominator)
    return NotImplemented
class SB:
    def __init__(s,t): s.t=t
    def __bool__(s): return CTX.branch(s.t)
    def __and__(s,o): return SB(z3.And(s.t, o.t if isinstance(o,SB) else z3.BoolVal(bool(o))))
    def __or__(s,o): return SB(z3.Or(s.t, o.t if isinstance(o,SB) else z3.BoolVal(bool(o))))
    def __invert__(s): return SB(z3.Not(s.t))
class SR:
    __array_priority__=1000
    def __init__(s,t): s.t=t
    def _b(s,o,f):
        t=lift(o); return NotImplemented if t is NotImplemented else SR(f(s.t,t))
    def _c(s,o,f):
        t=lift(o); return NotImplemented if t is NotImplemented else SB(f(s.t,t))
    __add__=__radd__=lambda s,o: s._b(o,lambda a,b:a+b)
    __sub__=lambda s,o: s._b(o,lambda a,b:a-b); __rsub__=lambda s,o: s._b(o,lambda a,b:b-a)
    __mul__=__rmul__=lambda s,o: s._b(o,lambda a,b:a*b)
    def __truediv__(s,o):
        t=lift(o)
        if CTX.branch(t==0): raise ZeroDivisionError
        return SR(s.t/t)
    def __rtruediv__(s,o):
        if CTX.branch(s.t==0): raise ZeroDivisionError
        return SR(lift(o)/s.t)
    __neg__=lambda s: SR(-s.t)
    def __abs__(s): return SR(z3.If(s.t>=0,s.t,-s.t))
    __lt__=lambda s,o: s._c(o,lambda a,b:a<b); __le__=lambda s,o: s._c(o,lambda a,b:a<=b)
    __gt__=lambda s,o: s._c(o,lambda a,b:a>b); __ge__=lambda s,o: s._c(o,lambda a,b:a>=b)
    __eq__=lambda s,o: s._c(o,lambda a,b:a==b); __ne__=lambda s,o: s._c(o,lambda a,b:a!=b)
    __hash__=lambda s: id(s)
    def __repr__(s): return f"SR({s.t})"
    def __float__(s): raise Abort("float() on symbolic")
import numbers; numbers.Number.register(SR)
def explore(fn, check):
    global CTX
    work=[[]]; paths=0; t0=time.time()
    while work:
        dec=work.pop()
        CTX=Ctx(); CTX.decisions=list(dec); CTX.open=[]
        try: res=fn(); exc=None
        except (ZeroDivisionError,) as e: res=None; exc=e
        paths+=1
        for idx in CTX.open:
            alt=CTX.decisions[:idx]+[False]; work.append(alt)
        check(res, exc, CTX.pc)
    return paths, time.time()-t0

from fairlearn.metrics._disaggregated_result import DisaggregatedResult
def run(ngroups):
    names=[f"g{i}" for i in range(ngroups)]
    vs=[z3.Real(f"v{i}") for i in range(ngroups)]; ov=z3.Real("o")
    def fn():
        by=pd.DataFrame({"m": pd.Series([SR(v) for v in vs], index=pd.Index(names,name="sf"), dtype=object)})
        ovs=pd.Series({"m": SR(ov)}, dtype=object)
        dr=DisaggregatedResult(ovs, by)
        return dict(db=dr.difference(None,"between_groups","coerce")["m"], do=dr.difference(None,"to_overall","coerce")["m"],
                    gmin=dr.apply_grouping("min",None,"coerce")["m"], gmax=dr.apply_grouping("max",None,"coerce")["m"])
    bad=[]
    def check(res, exc, pc):
        s=z3.Solver(); s.add(*pc)
        mx=vs[0]; mn=vs[0]
        for v in vs[1:]: mx=z3.If(v>mx,v,mx); mn=z3.If(v<mn,v,mn)
        spec_db=mx-mn
        dmax=None
        for v in vs:
            d=z3.If(v-ov>=0,v-ov,ov-v); dmax=d if dmax is None else z3.If(d>dmax,d,dmax)
        s.add(z3.Or(res['db'].t!=spec_db, res['do'].t!=dmax, res['gmin'].t!=mn, res['gmax'].t!=mx, res['db'].t<0, res['db'].t>2*res['do'].t))
        if s.check()!=z3.unsat: bad.append(s.model())
    p,t=explore(fn,check); print("groups",ngroups,"paths",p,"time %.1fs"%t,"violations",len(bad))
for g in (2,3,4): run(g)
