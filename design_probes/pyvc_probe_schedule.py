"""FEASIBILITY PROBE (throw-away, not the framework).

Second shape of target: a *method* with `self` attributes, two nested `for ... in range(...)`
loops, early `return`s, calls that must be abstracted into ghost traces, a block that the
extraction drops, and integer nonlinear arithmetic.

Target: fairlearn/adversarial/_adversarial_mitigation.py::_AdversarialFairness.fit, from the
statement `if self.batch_size == -1:` to the end of the method (the schedule of C17).

Abstractions stated by the sidecar contract (everything else is executed from the real AST):
  * `self.backendEngine_.train_step(X[s], y[s], A[s])`  -> ghost append of (lo, hi, epoch, batch) to the trace T
  * the `for cb in self.callbacks_` loop                 -> summary: stop == STOP(self.n_iter_), ghost append of n_iter_ to C
  * the `if self.progress_updates:` block                -> dropped after checking it assigns only untracked names
  * `ceil(a / b)` for positive ints                      -> c with (c-1)*b < a <= c*b        (library contract)
  * precondition: shuffle == False, n >= 1, batch_size/epochs/max_iter each -1 or >= 1, not (epochs == -1 and max_iter == -1)

run: python3-vt pyvc_probe_schedule.py [--mutate]
"""
import ast
import sys
import time
from z3 import (And, Bool, BoolVal, Const, ForAll, Function, If, Implies, Int, IntSort, IntVal, Not, Or, Solver,
                Select, ArraySort, BoolSort, unsat, sat, MultiPattern)

SRC = "/repo/fairlearn/adversarial/_adversarial_mitigation.py"
UNTRACKED = {"start_time", "last_update_time", "predictor_losses", "adversary_losses", "progress", "ETA", "LP", "LA"}

FRESH = [0]
QF_TERMS = {}


def fresh(name, sort=None):
    FRESH[0] += 1
    return Const(f"{name}!{FRESH[0]}", IntSort() if sort is None else sort)


MUL = Function("mul", IntSort(), IntSort(), IntSort())
STOP = Function("STOP", IntSort(), BoolSort())


class Trace:
    """ghost trace: parallel arrays + length, with eager overlay (see hull probe)"""

    def __init__(self, arrs, n, over=()):
        self.arrs, self.n, self.over = arrs, n, tuple(over)

    def get(self, f, k):
        t = Select(self.arrs[f], k)
        for (idx, vals) in self.over:
            t = If(k == idx, vals[f], t)
        return t

    def append(self, vals):
        return Trace(self.arrs, self.n + 1, self.over + ((self.n, vals),))


class St:
    def __init__(self):
        self.env, self.attrs, self.pc, self.ghost = {}, {}, [], {}

    def clone(self):
        s = St()
        s.env, s.attrs, s.pc, s.ghost = dict(self.env), dict(self.attrs), list(self.pc), dict(self.ghost)
        return s


class Exec:
    def __init__(self, contract):
        self.c = contract
        self.obligations = []
        self.dropped = []
        self.loop_path = []

    def oblige(self, name, st, goals):
        ts = [st.ghost["T"].n, st.ghost["T"].n - 1, st.ghost["C"].n, st.ghost["C"].n - 1] if "T" in st.ghost else []
        for v in ("epoch", "batch"):
            if v in st.env:
                ts += [st.env[v], st.env[v] - 1, st.env[v] + 1]
        for k, g in enumerate(goals):
            QF_TERMS[f"{name}#{k}"] = ts
            self.obligations.append((f"{name}#{k}", list(st.pc), g))

    # ---------- expressions (ints / bools only)
    def ev(self, e, st):
        if isinstance(e, ast.Constant):
            if isinstance(e.value, bool):
                return BoolVal(e.value)
            if isinstance(e.value, int):
                return IntVal(e.value)
            return e.value
        if isinstance(e, ast.Name):
            if e.id in st.env:
                return st.env[e.id]
            if e.id == "self":
                return "self"
            raise NotImplementedError("name " + e.id)
        if isinstance(e, ast.Attribute):
            if isinstance(e.value, ast.Name) and e.value.id == "self":
                return st.attrs[e.attr]
            if isinstance(e.value, ast.Name) and e.value.id == "X" and e.attr == "shape":
                return ("shape",)
        if isinstance(e, ast.Subscript) and self.ev(e.value, st) == ("shape",):
            return st.env["$n"]
        if isinstance(e, ast.UnaryOp) and isinstance(e.op, ast.USub):
            return -self.ev(e.operand, st)
        if isinstance(e, ast.UnaryOp) and isinstance(e.op, ast.Not):
            return Not(self.ev(e.operand, st))
        if isinstance(e, ast.BinOp):
            if isinstance(e.op, ast.Div):
                return ("div", self.ev(e.left, st), self.ev(e.right, st))
            a, b = self.ev(e.left, st), self.ev(e.right, st)
            return {ast.Add: lambda: a + b, ast.Sub: lambda: a - b, ast.Mult: lambda: a * b}[type(e.op)]()
        if isinstance(e, ast.BoolOp):
            vs = [self.ev(v, st) for v in e.values]
            return And(*vs) if isinstance(e.op, ast.And) else Or(*vs)
        if isinstance(e, ast.Compare) and len(e.ops) == 1:
            a, b = self.ev(e.left, st), self.ev(e.comparators[0], st)
            return {ast.Eq: lambda: a == b, ast.NotEq: lambda: a != b, ast.GtE: lambda: a >= b, ast.Gt: lambda: a > b,
                    ast.LtE: lambda: a <= b, ast.Lt: lambda: a < b}[type(e.ops[0])]()
        if isinstance(e, ast.Call) and isinstance(e.func, ast.Name):
            f = e.func.id
            if f == "ceil":                      # library contract for ceil(a / b), a >= 1, b >= 1
                d = self.ev(e.args[0], st)
                assert d[0] == "div"
                a, b = d[1], d[2]
                self.oblige("ceil_pre@%d" % e.lineno, st, [a >= 1, b >= 1])
                c = fresh("ceil")
                st.pc += [c >= 1, (c - 1) * b < a, a <= c * b]
                return c
            if f == "min":
                a, b = self.ev(e.args[0], st), self.ev(e.args[1], st)
                return If(a <= b, a, b)
            if f == "slice":
                return ("slice", self.ev(e.args[0], st), self.ev(e.args[1], st))
            if f == "time":
                return fresh("time")
        raise NotImplementedError(ast.dump(e)[:200])

    # ---------- statements -> list of (state, status) ; status in fall/return
    def block(self, stmts, st):
        outs = [(st, "fall")]
        for s in stmts:
            nxt = []
            for (s0, status) in outs:
                nxt.extend(self.stmt(s, s0) if status == "fall" else [(s0, status)])
            outs = nxt
        return outs

    def droppable(self, s):
        assigned, calls = set(), set()
        for n in ast.walk(s):
            if isinstance(n, (ast.Assign, ast.AugAssign)):
                for t in (n.targets if isinstance(n, ast.Assign) else [n.target]):
                    for m in ast.walk(t):
                        if isinstance(m, ast.Name):
                            assigned.add(m.id)
                        if isinstance(m, ast.Attribute):
                            assigned.add("self." + m.attr)
            if isinstance(n, ast.Call):
                calls.add(ast.unparse(n.func))
            if isinstance(n, (ast.Return, ast.Raise, ast.Break, ast.Continue)):
                return False
        pure = {"time", "len", "round", "str", "logger.info", "_PROGRESS_UPDATE.format"}
        return assigned <= UNTRACKED and calls <= pure

    def stmt(self, s, st):
        if isinstance(s, ast.Assign) and len(s.targets) == 1:
            t = s.targets[0]
            if isinstance(t, ast.Name) and t.id in UNTRACKED:
                return [(st, "fall")]
            if isinstance(t, ast.Tuple) and all(isinstance(x, ast.Name) and x.id in UNTRACKED for x in t.elts):
                # (LP, LA) = self.backendEngine_.train_step(X[batch_slice], y[batch_slice], A[batch_slice])
                call = s.value
                assert ast.unparse(call.func) == "self.backendEngine_.train_step"
                slices = {ast.unparse(a.slice) for a in call.args}
                bases = [ast.unparse(a.value) for a in call.args]
                assert bases == ["X", "y", "A"] and len(slices) == 1, "train_step must get the same slice of X, y, A"
                sl = st.env[slices.pop()]
                st.ghost["T"] = st.ghost["T"].append({"lo": sl[1], "hi": sl[2], "e": st.env["epoch"], "b": st.env["batch"]})
                return [(st, "fall")]
            if isinstance(t, ast.Name):
                st.env[t.id] = self.ev(s.value, st)
                return [(st, "fall")]
            if isinstance(t, ast.Attribute) and isinstance(t.value, ast.Name) and t.value.id == "self":
                st.attrs[t.attr] = self.ev(s.value, st)
                return [(st, "fall")]
        if isinstance(s, ast.AugAssign) and isinstance(s.target, ast.Attribute) and isinstance(s.op, ast.Add):
            st.attrs[s.target.attr] = st.attrs[s.target.attr] + self.ev(s.value, st)
            return [(st, "fall")]
        if isinstance(s, ast.Expr) and isinstance(s.value, ast.Call):
            f = ast.unparse(s.value.func)
            if f.split(".")[0] in UNTRACKED and f.endswith(".append"):
                return [(st, "fall")]
        if isinstance(s, ast.If):
            src = ast.unparse(s.test)
            if src == "self.progress_updates" and self.droppable(s):
                self.dropped.append(s.lineno)
                return [(st, "fall")]
            if src == "self.callbacks_":
                c = st.attrs["callbacks_truthy"]
            elif src == "self.shuffle":
                c = st.attrs["shuffle"]
            elif src == "stop":
                c = st.env["stop"]
            else:
                c = self.ev(s.test, st)
            a, b = st.clone(), st.clone()
            a.pc.append(c)
            b.pc.append(Not(c))
            outs = []
            for br, body in ((a, s.body), (b, s.orelse)):
                chk = Solver()
                chk.set("timeout", 5000)
                chk.add(*[p for p in br.pc if not (hasattr(p, "is_forall") and p.is_forall())])
                if chk.check() == unsat:        # infeasible branch (e.g. shuffle == True)
                    continue
                outs += self.block(body, br)
            return outs
        if isinstance(s, ast.Return):
            return [(st, "return@%d" % s.lineno)]
        if isinstance(s, ast.For):
            return self.loop(s, st)
        raise NotImplementedError(ast.unparse(s)[:200])

    def loop(self, s, st):
        var = s.target.id
        if var == "cb":                                   # contract summary for the callback loop
            st.ghost["C"] = st.ghost["C"].append({"step": st.attrs["n_iter_"]})
            st.env["stop"] = STOP(st.attrs["n_iter_"])
            return [(st, "fall")]
        assert isinstance(s.iter, ast.Call) and s.iter.func.id == "range" and len(s.iter.args) == 1
        bound = self.ev(s.iter.args[0], st)
        inv = self.c.invariants[var]
        st.env[var] = IntVal(0)
        self.oblige(f"{var}_inv_init", st, inv(st, bound))
        h = st.clone()
        # havoc: loop variable, self.n_iter_, ghost traces, `stop`, batch_slice, and inner loop var
        h.env[var] = fresh(var)
        h.attrs["n_iter_"] = fresh("n_iter")
        for g in ("T", "C"):
            old = h.ghost[g]
            h.ghost[g] = Trace({f: fresh(g + "_" + f, ArraySort(IntSort(), IntSort())) for f in old.arrs}, fresh("len" + g))
        if var == "epoch":
            h.env["batch"] = fresh("batch")
        h.pc += inv(h, bound)
        outs = []
        it = h.clone()
        it.pc.append(And(0 <= it.env[var], it.env[var] < bound))
        for (e, status) in self.block(s.body, it):
            if status.startswith("return"):
                outs.append((e, status))
            else:
                e.env[var] = e.env[var] + 1
                self.oblige(f"{var}_inv_preserved", e, inv(e, bound))
        ex = h.clone()
        ex.pc.append(ex.env[var] >= bound)
        outs.append((ex, "fall"))
        return outs


# ------------------------------------------------------------------ sidecar contract
k = Int("k")


class Contract:
    def __init__(self):
        self.invariants = {"epoch": self.inv_epoch, "batch": self.inv_batch}

    @staticmethod
    def axioms():
        x, b = Int("x"), Int("b")
        return [ForAll([b], MUL(0, b) == 0, patterns=[MUL(0, b)]),
                ForAll([x, b], Implies(x >= 1, MUL(x, b) == MUL(x - 1, b) + b), patterns=[MUL(x, b)])]

    @staticmethod
    def trace_ok(st, e_bound_strict, e_cur):
        T, C = st.ghost["T"], st.ghost["C"]
        bs, B, n = st.env["batch_size"], st.env["batches"], st.env["$n"]
        lo, hi, e, b = (lambda f: (lambda kk: T.get(f, kk)))("lo"), (lambda kk: T.get("hi", kk)), (lambda kk: T.get("e", kk)), (lambda kk: T.get("b", kk))
        return [
            T.n == st.attrs["n_iter_"], T.n >= 0,
            ForAll([k], Implies(And(0 <= k, k < T.n),
                                And(0 <= b(k), b(k) < B, 0 <= e(k), e(k) <= e_cur, Implies(e_bound_strict, e(k) < e_cur),
                                    k == MUL(e(k), B) + b(k),
                                    lo(k) == b(k) * bs, hi(k) == If((b(k) + 1) * bs <= n, (b(k) + 1) * bs, n))),
                   patterns=[Select(T.arrs[f_], k) for f_ in ("lo", "hi", "e", "b")]),
            Implies(st.attrs["max_iter"] != -1, st.attrs["n_iter_"] < st.attrs["max_iter"]),
            Implies(st.attrs["callbacks_truthy"], And(C.n == st.attrs["n_iter_"],
                                                      ForAll([k], Implies(And(0 <= k, k < C.n), And(C.get("step", k) == k + 1, Not(STOP(k + 1)))),
                                                             patterns=[Select(C.arrs["step"], k)]))),
            Implies(Not(st.attrs["callbacks_truthy"]), C.n == 0),
        ]

    def inv_epoch(self, st, bound):
        e = st.env["epoch"]
        return [0 <= e, e <= bound, st.attrs["n_iter_"] == MUL(e, st.env["batches"])] + self.trace_ok(st, BoolVal(True), e)

    def inv_batch(self, st, bound):
        e, b = st.env["epoch"], st.env["batch"]
        return [0 <= b, b <= bound, 0 <= e, st.attrs["n_iter_"] == MUL(e, st.env["batches"]) + b,
                # every recorded call of the current epoch has a smaller batch index
                ] + self.trace_ok(st, BoolVal(False), e) + [
            ForAll([k], Implies(And(0 <= k, k < st.ghost["T"].n, st.ghost["T"].get("e", k) == e), st.ghost["T"].get("b", k) < b),
                   patterns=[Select(st.ghost["T"].arrs[f_], k) for f_ in ("e", "b", "lo", "hi")])]

    @staticmethod
    def post(st, status, epochs):
        T, C = st.ghost["T"], st.ghost["C"]
        ni, mi, B = st.attrs["n_iter_"], st.attrs["max_iter"], st.env["batches"]
        base = [T.n == ni]
        if status == "fall":       # loops ran to completion
            return base + [ni == MUL(epochs, B), Implies(mi != -1, ni < mi)]
        # early return: either the budget is exhausted (callbacks not run for this step) or a callback said stop
        return base + [Or(And(mi != -1, ni == mi, Implies(st.attrs["callbacks_truthy"], C.n == ni - 1)),
                          And(st.attrs["callbacks_truthy"], STOP(ni), C.n == ni, C.get("step", C.n - 1) == ni))]


def main():
    tree = ast.parse(open(SRC).read())
    cls = [n for n in ast.walk(tree) if isinstance(n, ast.ClassDef) and n.name == "_AdversarialFairness"][0]
    fit = [f for f in cls.body if isinstance(f, ast.FunctionDef) and f.name == "fit"][0]
    start = [i for i, s in enumerate(fit.body) if isinstance(s, ast.If) and ast.unparse(s.test) == "self.batch_size == -1"][0]
    body = fit.body[start:]
    if "--mutate" in sys.argv:      # canary: off-by-one in the upper slice bound
        for n in ast.walk(ast.Module(body=body, type_ignores=[])):
            if isinstance(n, ast.Call) and isinstance(n.func, ast.Name) and n.func.id == "min":
                n.args[0] = ast.BinOp(left=n.args[0], op=ast.Sub(), right=ast.Constant(1))
        print("mutated:", [l.strip() for l in ast.unparse(ast.Module(body=body, type_ignores=[])).splitlines() if "min(" in l][0])
    c = Contract()
    ex = Exec(c)
    st = St()
    n = Int("n")
    st.env["$n"] = n
    for a in ("batch_size", "epochs", "max_iter"):
        st.attrs[a] = Int("self_" + a)
    st.attrs["shuffle"] = Bool("self_shuffle")
    st.attrs["callbacks_truthy"] = Bool("self_callbacks_truthy")
    st.attrs["progress_updates"] = Int("self_progress_updates")
    arr = lambda nm: Const(nm, ArraySort(IntSort(), IntSort()))
    st.ghost["T"] = Trace({f: arr("T0_" + f) for f in ("lo", "hi", "e", "b")}, IntVal(0))
    st.ghost["C"] = Trace({"step": arr("C0_step")}, IntVal(0))
    bs_, ep_, mi_ = st.attrs["batch_size"], st.attrs["epochs"], st.attrs["max_iter"]
    st.pc += [n >= 1, Or(bs_ == -1, bs_ >= 1), Or(ep_ == -1, ep_ >= 1), Or(mi_ == -1, mi_ >= 1), Not(And(ep_ == -1, mi_ == -1)),
              Not(st.attrs["shuffle"])] + c.axioms()
    outs = ex.block(body, st)
    last_line = body[-1].lineno
    for (e, status) in outs:
        kind = "fall" if status == "return@%d" % last_line else "early"
        ex.oblige("post_" + kind + "_" + status, e, c.post(e, kind, e.env["epochs"]))
    t0 = time.time()
    ok = 0
    for (name, hyps, goal) in ex.obligations:
        s = Solver()
        s.set("timeout", 20000)
        s.set("auto_config", False)
        s.set("smt.mbqi", False)
        s.add(*hyps)
        s.add(Not(goal))
        t = time.time()
        r = s.check()
        if r != unsat:
            # second pass for a candidate counterexample: model-based quantifier instantiation, short budget
            s2 = Solver()
            s2.set("timeout", 2000)
            s2.add(*hyps)
            s2.add(Not(goal))
            t2 = time.time()
            r2 = s2.check()
            extra = f"  second pass (MBQI): {r2} in {time.time()-t2:.2f}s"
            # third pass: quantifier-free candidate (skolemise goal, instantiate hypotheses on ground index terms)
            from z3 import is_quantifier, substitute_vars, is_int
            import itertools
            g2, sk = goal, []
            if is_quantifier(g2) and g2.is_forall():
                sk = [fresh("sk") for _ in range(g2.num_vars())]
                g2 = substitute_vars(g2.body(), *reversed(sk))
            terms = sk + [x + 1 for x in sk] + [x - 1 for x in sk] + [IntVal(0), IntVal(1)] + QF_TERMS.get(name, [])
            flat = []
            for h in hyps:
                if is_quantifier(h) and h.is_forall():
                    for tup in itertools.product(terms, repeat=h.num_vars()):
                        flat.append(substitute_vars(h.body(), *reversed(tup)))
                else:
                    flat.append(h)
            s3 = Solver(); s3.set("timeout", 15000); s3.add(*flat); s3.add(Not(g2))
            t3 = time.time(); r3 = s3.check()
            extra += f" | QF candidate: {r3} in {time.time()-t3:.2f}s"
            if r3 == sat:
                m = s3.model()
                want = ("n", "self_batch_size", "self_epochs", "self_max_iter")
                extra += "  candidate input: " + ", ".join(f"{d.name()}={m[d]}" for d in m.decls() if d.name() in want or d.name().startswith(("batch!", "epoch!")))
            if r2 == sat:
                m = s2.model()
                extra += "  e.g. " + ", ".join(f"{d.name()}={m[d]}" for d in m.decls() if d.name() in ("n", "self_batch_size", "self_epochs", "self_max_iter"))
            print(f"{name:26s} {str(r).upper():10s} {time.time()-t:6.2f}s{extra}")
        elif "-v" in sys.argv:
            print(f"{name:26s} discharged {time.time()-t:6.2f}s")
        ok += (r == unsat)
    print("dropped statements at lines:", ex.dropped)
    print("paths ending:", [s for _, s in outs])
    print("obligations:", len(ex.obligations), "discharged:", ok, "total %.1fs" % (time.time() - t0))


if __name__ == "__main__":
    main()
