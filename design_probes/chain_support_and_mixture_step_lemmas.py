from z3 import *
import time
ax,ay,bx,by,cx,cy,px,py = Reals('ax ay bx by cx cy px py')
def below(ax,ay,bx,by,qx,qy): return (bx-ax)*(qy-ay) <= (by-ay)*(qx-ax)
right_turn = (by-ay)*(cx-ax) > (cy-ay)*(bx-ax)   # b strictly above line a->c  (strict concavity at b)
# step to the LEFT: p right of the joint b, under line(b,c)  =>  under line(a,b)
L_left = Implies(And(ax<=bx, bx<cx, right_turn, px>=bx, below(bx,by,cx,cy,px,py)), below(ax,ay,bx,by,px,py))
# step to the RIGHT: p left of the joint b, under line(a,b)  =>  under line(b,c)
L_right = Implies(And(ax<bx, bx<=cx, right_turn, px<=bx, below(ax,ay,bx,by,px,py)), below(bx,by,cx,cy,px,py))
# variants allowing vertical first edge a.x == b.x for the left step handled above (ax<=bx)
for n,l in (("L_left",L_left),("L_right",L_right)):
    s=Solver(); s.set('timeout',30000); s.add(Not(l)); t=time.time(); r=s.check(); print(n,r,round(time.time()-t,2))
    if r==sat: print(s.model())
# mixture step: w>=0, point under supporting line y <= ya + s*(x-xa)  =>  accumulated inequality preserved
W,Sx,Sy,w,x,y,ya,xa,sl = Reals('W Sx Sy w x y ya xa sl')
inv = lambda W,Sx,Sy: Sy <= ya*W + sl*(Sx - xa*W)
step = Implies(And(w>=0, y <= ya + sl*(x-xa), inv(W,Sx,Sy)), inv(W+w, Sx+w*x, Sy+w*y))
s=Solver(); s.set('timeout',30000); s.add(Not(step)); t=time.time(); print("mix_step", s.check(), round(time.time()-t,2))
