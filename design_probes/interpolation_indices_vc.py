from z3 import *
import time
xv = Function('xv', IntSort(), RealSort()); g = Function('g', IntSort(), RealSort())
L, G, i, r = Ints('L G i r'); j, j2 = Ints('j j2')
pre = And(L >= 2, G >= 1, 0 <= i, i < G,
    ForAll([j, j2], Implies(And(0 <= j, j < j2, j2 < L), xv(j) <= xv(j2)), patterns=[MultiPattern(xv(j), xv(j2))]),
    ForAll([j, j2], Implies(And(1 <= j, j < j2, j2 < L), xv(j) < xv(j2)), patterns=[MultiPattern(xv(j), xv(j2))]),
    xv(0) == g(0), xv(0) < xv(L - 1),
    ForAll([j, j2], Implies(And(0 <= j, j < j2, j2 < G), g(j) < g(j2)), patterns=[MultiPattern(g(j), g(j2))]),
    g(G - 1) <= xv(L - 1),
    # searchsorted(x_values, x_grid[i], 'right') == r
    0 <= r, r <= L,
    ForAll([j], Implies(And(0 <= j, j < r), xv(j) <= g(i)), patterns=[xv(j)]),
    ForAll([j], Implies(And(r <= j, j < L), xv(j) > g(i)), patterns=[xv(j)]))
idx = r - 1
ob_bounds = Implies(i >= 1, And(0 <= idx, idx < L))     # xv(indices[1:]) is evaluated for i>=1
idx2 = If(i >= 1, If(g(i) == xv(idx), idx - 1, idx), idx)
post = And(0 <= idx2, idx2 <= L - 2, xv(idx2) < xv(idx2 + 1), xv(idx2) <= g(i), g(i) <= xv(idx2 + 1))
for name, goal in [("index_in_bounds", ob_bounds), ("post", post)]:
    s = Solver(); s.set('timeout', 30000); s.set('auto_config', False); s.set('smt.mbqi', False)
    # seed terms for e-matching
    s.add(pre, Not(goal)); 
    t = time.time(); res = s.check(); print(name, res, round(time.time() - t, 2))
    if res == sat: print(s.model())
# cover: precondition satisfiable
s = Solver(); s.set("timeout", 10000); s.add(pre); print("cover", s.check())
